"""setup / self-test: nothing to build (pure Python). Verifies that the working tree imports,
and runs the quick unit tests of the reference models."""
import sys


def main():
    from mc import core
    ford = core.use_repo()
    import ford.reader, ford.sourceform, ford.fortran_project, ford.output  # noqa
    from mc.reflex import RefFree, norm_items
    r = RefFree()
    for l in ["x = 'a!b' ! c", "y = f(1, & !! d", "  & 2); z = ''"]:
        r.feed(l)
    assert norm_items(r.out) == [("s", "x='a!b'"), ("s", "y=f(1,2)"), ("s", "z=''"), ("d", "!! d")], r.out
    print("selftest ok; ford from", ford.__file__)
    return 0
