"""Reference lexers, written from the Fortran standard's source-form rules and
FORD's user guide (doc markers), independent of FORD's regexes.

RefFree: incremental free-form lexer.  feed(physical line) / finish().
Outputs a list of items ("s", statement text) / ("d", doc text incl. marker).
Statement text keeps literals verbatim; `norm_stmt` removes blanks outside literals.
"""
from __future__ import annotations


def norm_stmt(s: str) -> str:
    """Remove blanks outside character literals (doubled quotes understood)."""
    out = []
    lit = None
    i = 0
    while i < len(s):
        c = s[i]
        if lit:
            out.append(c)
            if c == lit:
                if i + 1 < len(s) and s[i + 1] == lit:
                    out.append(lit)
                    i += 1
                else:
                    lit = None
        else:
            if c in "'\"":
                lit = c
                out.append(c)
            elif c not in " \t":
                out.append(c)
        i += 1
    return "".join(out)


class RefFree:
    def __init__(self, docmark="!", predocmark=">", docmark_alt=None, predocmark_alt=None):
        self.docmark = docmark
        self.predocmark = predocmark
        # alternative marks: the marked comment line opens a block; the comment-only lines immediately following it belong to the block
        self.docmark_alt = docmark_alt
        self.predocmark_alt = predocmark_alt
        self._alt = None  # None | "doc" | "pre": kind of the alternative block the previous line belongs to
        self.cur = None  # text of statement being assembled (None = no statement open)
        self.lit = None  # quote char of a literal open across a continuation
        self.continued = False
        self.docs_after = []  # docs seen while a statement is still open
        self.line_stmts = []  # statements completed on the current logical line (';')
        self.predocs = []
        self.out = []
        self.ill = None  # reason the input is outside well-formed Fortran / judged subset
        self.features = set()
        self._predoc_block_open = False

    # -- helpers -----------------------------------------------------------
    def _end_stmt(self):
        if self.cur is not None and self.cur.strip():
            self.line_stmts.append(self.cur.strip())
        self.cur = None

    def _end_logical_line(self):
        self._end_stmt()
        if self.line_stmts or self.docs_after:
            pass
        if self.line_stmts:
            for s in self.line_stmts:
                self.out.append(("s", s))
            for d in self.predocs:
                self.out.append(("d", d))
            self.predocs = []
            self.line_stmts = []
        for d in self.docs_after:
            self.out.append(("d", d))
        self.docs_after = []

    def _comment(self, text, own_line):
        """text starts with '!'."""
        dm, pm = "!" + self.docmark, "!" + self.predocmark if self.predocmark else None
        da = "!" + self.docmark_alt if self.docmark_alt else None
        pa = "!" + self.predocmark_alt if self.predocmark_alt else None
        alt, self._alt = self._alt, None
        if text.startswith(dm):
            if own_line and not self.continued:
                if self._predoc_block_open:
                    self.ill = "doc line directly inside a pre-doc block (ambiguous)"
                self.out.append(("d", text.rstrip()))
            else:
                self.docs_after.append(text.rstrip())
            return
        if pm and text.startswith(pm):
            if not own_line:
                self.ill = "inline pre-doc"
                return
            if self.continued:
                self.ill = "pre-doc inside a continued statement"
                return
            self.predocs.append("!" + self.docmark + text[len(pm):].rstrip())
            self._predoc_block_open = True
            return
        if pa and text.startswith(pa):
            if not own_line or self.continued:
                self.ill = "alternative pre-doc mark inline or inside a continued statement"
                return
            self.predocs.append("!" + self.docmark + text[len(pa):].rstrip())
            self._predoc_block_open = True
            self._alt = "pre"
            return
        if da and text.startswith(da):
            if not own_line or self.continued:
                self.ill = "alternative doc mark inline or inside a continued statement"
                return
            if self._predoc_block_open:
                self.ill = "doc line directly inside a pre-doc block (ambiguous)"
            self.out.append(("d", "!" + self.docmark + text[len(da):].rstrip()))
            self._alt = "doc"
            return
        # ordinary comment: dropped, unless it stands on a line of its own directly below the lines of an alternative block
        if own_line and not self.continued and alt == "doc":
            self.out.append(("d", "!" + self.docmark + text[1:].rstrip()))
            self._alt = alt
        elif own_line and not self.continued and alt == "pre":
            self.predocs.append("!" + self.docmark + text[1:].rstrip())
            self._alt = alt

    # -- main --------------------------------------------------------------
    def feed(self, line: str):
        if self.ill:
            return
        line = line.rstrip("\n")
        stripped = line.strip()
        if stripped.startswith("#"):
            if self.lit:
                self.ill = "cpp line inside literal"
            if self._alt:
                self.ill = "cpp line inside an alternative doc block (is the next comment 'immediately following'?)"
            return
        i = 0
        n = len(line)
        while i < n and line[i] in " \t":
            i += 1
        if self.continued:
            if i >= n:
                return  # blank line inside continuation
            if line[i] == "!":
                # a comment line between continuation lines - also inside a continued character context, where the
                # continuation line proper must begin with `&` ("continued on the next line that is not a comment line")
                self._comment(line[i:], own_line=True)
                return
            if line[i] == "&":
                i += 1
                rest = line[i:].strip()
                if not rest or (rest.startswith("!") and not self.lit):
                    self.ill = "line with only & (and a comment)"
                    return
            else:
                if self.lit:
                    self.ill = "character context continued without leading &"
                    return
                self.cur += " "
        else:
            if i >= n:
                self._alt = None  # a blank line ends an alternative block
                return
            if line[i] == "&":
                self.ill = "& at start of a non-continuation line"
                return
            if line[i] != "!":
                self._predoc_block_open = False
                self._alt = None
        resumed_lit = bool(self.lit)
        had_code = self.continued
        self.continued = False
        buf = []
        comment = None
        lit = self.lit
        while i < n:
            c = line[i]
            if lit:
                buf.append(c)
                if c == lit:
                    if i + 1 < n and line[i + 1] == lit:
                        buf.append(lit)
                        i += 1
                    else:
                        lit = None
            elif c in "'\"":
                lit = c
                buf.append(c)
            elif c == "!":
                comment = line[i:]
                break
            elif c == ";":
                if self.cur is None:
                    self.cur = ""
                self.cur += "".join(buf)
                buf = []
                self._end_stmt()
                had_code = True
            else:
                buf.append(c)
            i += 1
        text = "".join(buf)
        if text.strip():
            had_code = True
        if comment is not None and resumed_lit:
            self.features.add("comment_after_continued_literal")
        if lit:
            # line ends inside a literal: must be continued with & as last nonblank
            t = text.rstrip(" \t")
            if t.endswith("&"):
                text = t[:-1]
                self.continued = True
                self.lit = lit
            else:
                self.ill = "unterminated literal"
                return
        else:
            self.lit = None
            t = text.rstrip(" \t")
            if t.endswith("&"):
                text = t[:-1]
                self.continued = True
        if had_code or text.strip():
            if self.cur is None:
                self.cur = ""
            self.cur += text
        if comment is not None:
            self._comment(comment, own_line=not had_code)
            if self.ill:
                return
        if not self.continued and (self.cur is not None or self.line_stmts):
            self._end_logical_line()

    def complete(self):
        """True when no statement / literal / pre-doc block is pending (EOF is legal here)."""
        return not self.ill and not self.continued and not self.predocs and self.cur is None

    def state(self):
        return (
            self.cur,
            self.lit,
            self.continued,
            tuple(self.docs_after),
            tuple(self.line_stmts),
            tuple(self.predocs),
            self._predoc_block_open,
            self._alt,
        )


def norm_items(items, docmark="!"):
    """Normalise a list of reader outputs for comparison: statements lose blanks
    outside literals; empty statements and empty doc lines are dropped."""
    out = []
    empty_doc = "!" + docmark
    for kind, text in items:
        if kind == "s":
            t = norm_stmt(text)
            if t:
                out.append(("s", t))
        else:
            t = text.rstrip()
            if t != empty_doc:
                out.append(("d", t))
    return out


def classify_ford_item(item: str):
    return ("d", item) if item.startswith("!") else ("s", item)
