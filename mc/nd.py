"""Owned nondeterminism: a `set` replacement injected into the globals of the ford modules
(and of toposort) whose iteration order is decided by the explorer.

In production the iteration order of these sets depends on string-hash randomisation
(PYTHONHASHSEED) or, for identity-hashed entity objects, on memory addresses.  Here every
iteration over a set with >= 2 elements is a choice point: 0 = insertion order (default),
1 = reversed, 2 = first two swapped, 3 = rotated by one.
"""
from __future__ import annotations

import sys

_CH = [None]  # current chooser (None = default order everywhere)
EVENTS = []  # (label) of the iteration events of the current run

_builtin_set = set


class ChoiceSet(_builtin_set):
    def __init__(self, it=()):
        items = list(it)
        _builtin_set.__init__(self, items)
        self._order = []
        seen = _builtin_set()
        for x in items:
            if x not in seen:
                seen.add(x)
                self._order.append(x)

    # -- mutation keeps insertion order -------------------------------------
    def add(self, x):
        if x not in self:
            self._order.append(x)
        _builtin_set.add(self, x)

    def update(self, *others):
        for o in others:
            for x in list(o):
                self.add(x)

    def discard(self, x):
        if x in self:
            self._order.remove(x)
        _builtin_set.discard(self, x)

    def remove(self, x):
        if x not in self:
            raise KeyError(x)
        self.discard(x)

    def pop(self):
        x = self._order.pop()
        _builtin_set.discard(self, x)
        return x

    def clear(self):
        self._order = []
        _builtin_set.clear(self)

    def copy(self):
        return ChoiceSet(self._order)

    def __or__(self, other):
        r = ChoiceSet(self._order)
        r.update(other)
        return r

    __ror__ = __or__

    def union(self, *others):
        r = ChoiceSet(self._order)
        r.update(*others)
        return r

    def __ior__(self, other):
        self.update(other)
        return self

    def __and__(self, other):
        o = _builtin_set(other)
        return ChoiceSet(x for x in self._order if x in o)

    def __sub__(self, other):
        o = _builtin_set(other)
        return ChoiceSet(x for x in self._order if x not in o)

    def difference(self, *others):
        r = self
        for o in others:
            r = r - o
        return r

    def difference_update(self, *others):
        for o in others:
            for x in list(o):
                self.discard(x)

    def __isub__(self, other):
        self.difference_update(other)
        return self

    # -- iteration is a choice point ----------------------------------------
    def __iter__(self):
        order = list(self._order)
        ch = _CH[0]
        if len(order) >= 2:
            f = sys._getframe(1)
            label = f"setiter:{f.f_code.co_filename.split('/')[-1]}:{f.f_code.co_name}:{len(order)}"
            EVENTS.append(label)
            if ch is not None:
                c = ch.choose(label, 4 if len(order) > 2 else 2)
                if c == 1:
                    order.reverse()
                elif c == 2:
                    order[0], order[1] = order[1], order[0]
                elif c == 3:
                    order = order[1:] + order[:1]
        return iter(order)

    def __reduce__(self):
        return (ChoiceSet, (list(self._order),))


_installed = []


def install():
    """Inject ChoiceSet as `set` into the module globals of ford and toposort."""
    import toposort

    import ford.fortran_project
    import ford.graphs
    import ford.output
    import ford.settings
    import ford.sourceform

    if _installed:
        return
    import ford._markdown
    import ford.external_project
    import ford.pagetree
    import ford.reader
    import ford.utils

    for mod in (ford.sourceform, ford.graphs, ford.fortran_project, ford.output, toposort, ford.external_project, ford.pagetree, ford._markdown,
                ford.reader, ford.utils, ford.settings, ford):
        mod.__dict__["set"] = ChoiceSet
        _installed.append(mod)
    # the order in which the file system enumerates a directory (os.listdir in the page tree) is owned too
    import os as _os

    import ford.pagetree

    class _OsProxy:
        def __getattr__(self, name):
            return getattr(_os, name)

        @staticmethod
        def listdir(path="."):
            order = sorted(_os.listdir(path))
            ch = _CH[0]
            if len(order) >= 2:
                label = f"listdir:pagetree.py:{_os.path.basename(str(path))}:{len(order)}"
                EVENTS.append(label)
                if ch is not None:
                    c = ch.choose(label, 4 if len(order) > 2 else 2)
                    if c == 1:
                        order.reverse()
                    elif c == 2:
                        order[0], order[1] = order[1], order[0]
                    elif c == 3:
                        order = order[1:] + order[:1]
            return order

    ford.pagetree.os = _OsProxy()


def uninstall():
    while _installed:
        mod = _installed.pop()
        mod.__dict__.pop("set", None)


def begin(chooser):
    _CH[0] = chooser
    del EVENTS[:]


def end():
    _CH[0] = None
