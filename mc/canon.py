"""Abstraction functions: ford objects -> canonical records.

tree(project) walks project.files[*] and every child list and returns a list of
flat records  {path, kind, name, ...props}.  Normalisations identify
representations FORD itself uses interchangeably (dimension attribute vs
entity-decl shape, parameter/optional flag vs attribute) so that an oracle built
on these records demands no more than the properties state.
"""
from __future__ import annotations

import re


def nb(s):
    """lower-case and remove blanks outside character literals; NBSP -> blank inside."""
    if s is None:
        return None
    s = str(s)
    out = []
    lit = None
    i = 0
    while i < len(s):
        c = s[i]
        if lit:
            if c == "\xa0":
                c = " "
            out.append(c)
            if c == lit:
                if i + 1 < len(s) and s[i + 1] == lit:
                    out.append(lit)
                    i += 1
                else:
                    lit = None
        elif c in "'\"":
            lit = c
            out.append(c)
        elif c not in " \t\xa0":
            out.append(c.lower())
        i += 1
    return "".join(out)


def _name(x):
    if x is None:
        return None
    if isinstance(x, str):
        return x.lower()
    return (getattr(x, "name", None) or "").lower()


DIMATTR = re.compile(r"^dimension(\(.*\))$")


def var_props(v):
    attribs = set()
    shape = nb(getattr(v, "dimension", "") or "")
    parameter = bool(getattr(v, "parameter", False))
    optional = bool(getattr(v, "optional", False))
    intent = nb(getattr(v, "intent", "") or "")
    for a in getattr(v, "attribs", []) or []:
        a = nb(a)
        m = DIMATTR.match(a)
        if m:
            shape = shape or m.group(1)
        elif a == "parameter":
            parameter = True
        elif a == "optional":
            optional = True
        elif a.startswith("intent(") and a.endswith(")"):
            intent = intent or a[7:-1]
        else:
            attribs.add(a)
    proto = getattr(v, "proto", None)
    pname = pargs = None
    if proto:
        pname = _name(proto[0])
        pargs = nb(proto[1]) if len(proto) > 1 and proto[1] else ""
    initial = getattr(v, "initial", None)
    if initial is not None:
        initial = nb(initial).replace("\\\\", "\\")
    return dict(
        vartype=(getattr(v, "vartype", "") or "").lower(),
        varkind=nb(getattr(v, "kind", None)),
        strlen=nb(getattr(v, "strlen", None)),
        proto=pname,
        proto_args=pargs or "",
        attribs=sorted(attribs),
        shape=shape,
        intent=intent,
        optional=optional,
        parameter=parameter,
        initial=initial,
        points=bool(getattr(v, "points", False)),
    )


class Tree:
    def __init__(self):
        self.recs = []

    def add(self, path, kind, name, _obj=None, **props):
        r = dict(path="/".join(path), kind=kind, name=(name or "").lower())
        r.update(props)
        if _obj is not None and hasattr(_obj, "doc_list"):
            r["doc"] = " ".join(" ".join(_obj.doc_list).split())
        self.recs.append(r)
        return path + (f"{kind}:{(name or '').lower()}",)

    def var(self, v, path, role="variable", **extra):
        from ford.sourceform import FortranVariable

        if isinstance(v, FortranVariable):
            self.add(path, "variable", v.name, _obj=v, role=role, **var_props(v), **extra)
        elif isinstance(v, str):
            self.add(path, "variable", v, role=role, unresolved=True, **extra)
        else:
            # dummy procedure with an explicit interface etc.
            self.add(path, "variable", getattr(v, "name", str(v)), role=role, is_procedure=True, **extra)

    def proc(self, p, path, role="proc"):
        from ford.sourceform import FortranModuleProcedureImplementation

        args = [_name(a) for a in getattr(p, "args", [])]
        ret = getattr(p, "retvar", None)
        props = dict(
            role=role,
            proctype=(getattr(p, "proctype", "") or "").lower(),
            args=args,
            attribs=sorted(nb(a) for a in getattr(p, "attribs", []) or []),
            bindc=nb(getattr(p, "bindC", None)),
            result=_name(ret) if ret is not None else None,
        )
        if isinstance(p, FortranModuleProcedureImplementation):
            props["proctype"] = "moduleprocedure"
            props["args"] = []
            props["result"] = None
            props["attribs"] = []
        props["calls"] = sorted({(getattr(c, "name", c) or "").lower() for c in getattr(p, "calls", []) or []})
        sub = self.add(path, "proc", p.name, _obj=p, **props)
        if not isinstance(p, FortranModuleProcedureImplementation):
            for a in getattr(p, "args", []):
                self.var(a, sub, role="arg")
            if ret is not None and not isinstance(ret, str):
                self.var(ret, sub, role="result")
        self.unit_body(p, sub)

    def type(self, t, path):
        sub = self.add(
            path,
            "type",
            t.name,
            _obj=t,
            extends=_name(t.extends),
            attribs=sorted(nb(a) for a in t.attribs),
            sequence=bool(getattr(t, "sequence", False)),
            parameters=[_name(p) for p in getattr(t, "parameters", [])],
        )
        comps = getattr(t, "local_variables", None)
        if comps is None:
            comps = t.variables
        for p in getattr(t, "parameters", []):
            if not isinstance(p, str):
                self.var(p, sub, role="type-parameter")
        for v in comps:
            self.var(v, sub, role="component")
        for b in t.boundprocs:
            if getattr(b, "parent", None) is not t:
                continue  # inherited
            self.add(
                sub,
                "binding",
                b.name,
                _obj=b,
                generic=bool(b.generic),
                deferred=bool(b.deferred),
                proto=_name(b.proto) if b.proto else None,
                attribs=sorted(nb(a) for a in b.attribs),
                bindings=[_name(x) for x in b.bindings],
            )
        for f in t.finalprocs:
            self.add(sub, "final", f.name, _obj=f)

    def interface(self, i, path, kind):
        from ford.sourceform import FortranModuleProcedureInterface

        if isinstance(i, FortranModuleProcedureInterface):
            sub = self.add(path, kind, i.name, _obj=i, generic=False)
            self.proc(i.procedure, sub, role="interface-body")
            return
        sub = self.add(
            path,
            kind,
            i.name,
            _obj=i,
            generic=bool(i.generic),
            modprocs=[_name(m) for m in i.modprocs],
            bodies=sorted(_name(r) for r in list(i.functions) + list(i.subroutines)),
        )
        for r in list(i.functions) + list(i.subroutines):
            self.proc(r, sub, role="interface-body")

    def unit_body(self, u, sub):
        from ford.sourceform import FortranVariable

        for v in getattr(u, "variables", []):
            self.var(v, sub)
        for t in getattr(u, "types", []):
            self.type(t, sub)
        for i in getattr(u, "interfaces", []):
            self.interface(i, sub, "interface")
        for i in getattr(u, "absinterfaces", []):
            self.interface(i, sub, "absinterface")
        for n, e in enumerate(getattr(u, "enums", [])):
            es = self.add(sub, "enum", f"#{n}", _obj=e)
            for v in e.variables:
                self.add(es, "enumerator", v.name, _obj=v, initial=nb(v.initial))
        for c in getattr(u, "common", []):
            names = []
            for v in c.variables:
                if isinstance(v, FortranVariable):
                    names.append([v.name.lower(), v.vartype])
                    if v.parent is not c:
                        self.var(v, sub, in_common=(c.name or "").lower())
                else:
                    names.append([str(v).lower(), None])
            self.add(sub, "common", c.name, _obj=c, vars=names)
        for nl in getattr(u, "namelists", []):
            self.add(sub, "namelist", nl.name, _obj=nl, vars=[_name(v) for v in nl.variables])
        seen = set()
        for coll in ("subroutines", "functions", "modprocedures", "modsubroutines", "modfunctions"):
            for p in getattr(u, coll, []):
                if id(p) in seen:
                    continue
                seen.add(id(p))
                self.proc(p, sub)

    def unit(self, u, kind, path):
        props = {}
        if kind == "submodule":
            props = dict(ancestor=_name(u.ancestor_module), parent_submodule=_name(u.parent_submodule))
        if kind == "program":
            props["calls"] = sorted({(getattr(c, "name", c) or "").lower() for c in getattr(u, "calls", []) or []})
        sub = self.add(path, kind, u.name, _obj=u, **props)
        self.unit_body(u, sub)

    def file(self, f):
        path = (f"file:{f.name}",)
        for m in f.modules:
            self.unit(m, "module", path)
        for m in f.submodules:
            self.unit(m, "submodule", path)
        for p in f.programs:
            self.unit(p, "program", path)
        for b in f.blockdata:
            self.unit(b, "blockdata", path)
        for p in list(f.subroutines) + list(f.functions):
            self.proc(p, path)


def tree(project):
    t = Tree()
    for f in project.files:
        t.file(f)
    return t.recs


def key(r):
    return (r["path"], r["kind"], r["name"], r.get("role", ""))


def diff(got, want, ignore=()):
    """Compare two record lists as multisets keyed by (path, kind, name, role).
    Returns list of (what, key, detail)."""
    out = []
    g, w = {}, {}
    for r in got:
        g.setdefault(key(r), []).append(r)
    for r in want:
        w.setdefault(key(r), []).append(r)
    for k in sorted(set(g) | set(w), key=str):
        gl, wl = g.get(k, []), w.get(k, [])
        if len(gl) != len(wl):
            out.append(("missing" if len(gl) < len(wl) else "spurious", k, f"reported {len(gl)} time(s), declared {len(wl)} time(s)"))
            continue
        for a, b in zip(gl, wl):
            for f in sorted(set(b) - set(ignore)):
                if f in ("path", "kind", "name", "role"):
                    continue
                if a.get(f) != b[f]:
                    out.append(("field:" + f, k, dict(got=a.get(f), want=b[f])))
    return out
