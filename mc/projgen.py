"""Generator of whole documentation projects from a cardinality vector (used by the HTML-level checks)."""
from __future__ import annotations


def make_project(nfiles=1, nmod=1, nprog=1, nproc=1, ntype=1, nabs=0, nblock=0, nnl=0, nsub=0, ngen=0, pages=None, links=True, private_impls=False, extra_files=False, footnotes=False):
    """Return {relative path: text}.  Entities are spread round-robin over `nfiles` source files.
    pages: None | depth (0, 1, 2) of a static page tree."""
    units = []  # (text)

    def host_items(indent="  ", in_module=True):
        L, C = [], []
        for t in range(1, ntype + 1):
            ext = f", extends(ty{t - 1})" if t > 1 else ""
            L += [f"type{ext} :: ty{t}", f"  !! doc of type ty{t}" + (f" see [[ty{t - 1}]]" if t > 1 and links and in_module else ""),
                  f"  integer :: comp{t}", f"  !! component {t}", "contains", f"  procedure :: bound{t}", f"  !! binding {t}" + (f", implemented by [[bound{t}]]" if links and in_module else ""), "  !!", f"  !! second paragraph of binding {t}",
                  f"  generic :: gbound{t} => bound{t}", f"  !! generic binding {t}", "  !!", f"  !! second paragraph of generic binding {t}"]
            if in_module:
                # a finaliser that is private to the module (it has no page of its own unless private entities are displayed)
                L += [f"  final :: fin{t}", f"  !! finaliser {t}"]
            L += [f"end type ty{t}"]
            if in_module:
                L.append(f"private :: fin{t}")
                C += [f"subroutine fin{t}(self)", f"  !! finaliser of ty{t}", "  !!", f"  !! second paragraph of finaliser {t}", f"  type(ty{t}), intent(inout) :: self",
                      f"  !! the object of finaliser {t}", "  !!", f"  !! second paragraph about the object of finaliser {t}", f"end subroutine fin{t}"]
            if private_impls and in_module:
                L.append(f"private :: bound{t}")
            C += [f"subroutine bound{t}(self)", f"  !! bound procedure {t}", "  !!", f"  !! second paragraph of bound procedure {t}", f"  class(ty{t}), intent(in) :: self", f"end subroutine bound{t}"]
        for a in range(1, nabs + 1):
            L += ["abstract interface", f"  subroutine absi{a}(x)", f"    !! abstract interface {a}", "    integer, intent(in) :: x",
                  f"  end subroutine absi{a}", "end interface"]
        for g in range(1, ngen + 1):
            L += [f"interface gen{g}", f"  !! generic interface {g}", f"  module procedure gimpl{g}", "end interface"]
            if private_impls and in_module:
                L.append(f"private :: gimpl{g}")
            C += [f"subroutine gimpl{g}(x)", f"  !! specific {g}", "  !!", f"  !! second paragraph of specific {g}", "  integer :: x", f"end subroutine gimpl{g}"]
        if ntype and in_module:
            # explicit interface of an external function whose result is of a derived type
            L += ["interface", "  function extmk(c) result(r)", "    !! explicit interface of a function returning [[ty1]]", "    import :: ty1", "    integer, intent(in) :: c", "    type(ty1) :: r", "    !! the new object",
                  "  end function extmk", "end interface"]
        if ngen and ntype and in_module:
            # structure-constructor overload: a generic interface with the name of the type
            L += ["interface ty1", "  !! constructor interface of [[ty1(type)]]", "  module procedure mk_ty1", "end interface ty1"]
            if private_impls:
                L.append("private :: mk_ty1")
            C += ["function mk_ty1(c) result(r)", "  !! makes a ty1", "  integer, intent(in) :: c", "  type(ty1) :: r", "  r%comp1 = c", "end function mk_ty1"]
        return L, C

    def nl_lines():
        out = []
        for n in range(1, nnl + 1):
            out += [f"integer :: nlv{n}", f"namelist /nlist{n}/ nlv{n}", f"!! namelist {n}"]
        return out

    placed = False
    for m in range(1, nmod + 1):
        L = [f"module mod{m}", f"  !! doc of module mod{m}" + (f" uses [[mod{m - 1}]]" if m > 1 and links else "")]
        if m > 1:
            L.append(f"  use mod{m - 1}")
        L.append("  use iso_fortran_env")
        L.append("  use, intrinsic :: iso_c_binding, only: c_int")
        if m == 1:
            L.append("  use third_party_lib")
        L.append("  implicit none")
        L += [f"  integer :: mvar{m}", f"  !! module variable {m}"]
        if nnl and m == 1:
            # a namelist in the specification part of a module (besides those inside procedures)
            L += ["  integer :: mnlv", "  namelist /modnl/ mnlv, mvar1", "  !! module-level namelist"]
        C = [f"subroutine msub{m}(a)", f"  !! module subroutine {m}", "  integer, intent(in) :: a", f"  !! argument of msub{m}"]
        if m == 1 and ntype and links:
            # a derived type local to a procedure: it has no page of its own, its documentation is shown with the procedure's internals
            C += ["  type loct", "    !! summary: the local type in short", "    !!", "    !! a local type, see [[mod1]] and [[msub1]]", "    !!", "    !! second paragraph about the local type", "    integer :: lcomp", "    !! a local component, see [[mod1]]", "  end type loct"]
        if m == 1:
            C += ["  " + l for l in nl_lines()]
        if m > 1:
            C.append(f"  call msub{m - 1}(a)")
        C.append(f"end subroutine msub{m}")
        if m == 1:
            C += [f"integer function mfun{m}(b) result(res)", "  !! module function", "  integer, intent(in) :: b", "  res = b", f"end function mfun{m}"]
            hl, hc = host_items()
            L += ["  " + l for l in hl]
            C += hc
            if nsub:
                L += ["  interface", "    module subroutine smp(z)", "      !! separate module procedure", "      integer :: z", "    end subroutine smp",
                      "    module subroutine smp2(z)", "      !! second separate module procedure", "      integer :: z", "    end subroutine smp2", "  end interface"]
            placed = True
        L += ["contains"] + ["  " + l for l in C] + [f"end module mod{m}"]
        units.append("\n".join(L))
    for s in range(1, nsub + 1):
        if nmod:
            par = "mod1" if s == 1 else f"mod1:submod{s - 1}"
            L = [f"submodule ({par}) submod{s}", f"  !! doc of submodule {s}"] + ([f"  integer :: snlv{s}", f"  namelist /subnl{s}/ snlv{s}", "  !! submodule-level namelist"] if nnl else []) + ["contains"]
            if s == 1:
                L += ["  module subroutine smp(z)", "    !! implementation", "    integer :: z", "  end subroutine smp",
                      # ... and one written in the short form that repeats nothing of the interface
                      "  module procedure smp2", "    !! implementation in the short form", "  end procedure smp2"]
            else:
                L += [f"  subroutine shelper{s}()", "    !! helper", f"  end subroutine shelper{s}"]
            L += [f"end submodule submod{s}"]
            units.append("\n".join(L))
    for p in range(1, nprog + 1):
        L = [f"program prog{p}", f"  !! doc of program prog{p}"]
        if nmod:
            L.append("  use mod1")
        L.append("  use iso_fortran_env")
        L.append("  use omp_lib")
        L.append("  implicit none")
        hl, hc = ([], [])
        if not placed:
            hl, hc = host_items(in_module=False)
            L += ["  " + l for l in hl]
            placed = True
            own_nl = True
        else:
            own_nl = False
        L += [f"  integer :: pvar{p}", f"  !! program variable {p}"]
        if nmod:
            L.append(f"  call msub1(pvar{p})")
        if nproc:
            L.append(f"  call ext1(pvar{p})")
        inner = [f"subroutine inner{p}()", f"  !! internal procedure of prog{p}"] + (["  " + l for l in nl_lines()] if own_nl else []) + [f"end subroutine inner{p}"]
        L += ["contains"] + ["  " + l for l in inner + hc] + [f"end program prog{p}"]
        units.append("\n".join(L))
    for e in range(1, nproc + 1):
        L = [f"subroutine ext{e}(q)", f"  !! doc of external procedure ext{e}"]
        if nmod:
            L.append("  use mod1")
        L.append("  implicit none")
        hl, hc = ([], [])
        own = False
        if not placed:
            hl, hc = host_items(in_module=False)
            placed = own = True
            L += ["  " + l for l in hl]
        L += ["  integer, intent(in) :: q", "  !! argument q"]
        if own:
            L += ["  " + l for l in nl_lines()]
        if e > 1:
            L.append(f"  call ext{e - 1}(q)")
        if hc:
            L += ["contains"] + ["  " + l for l in hc]
        L.append(f"end subroutine ext{e}")
        units.append("\n".join(L))
    for b in range(1, nblock + 1):
        typed = [f"  type bdt{b}", f"    !! a type defined in block data bd{b}", "    sequence", "    integer :: lo, hi", f"  end type bdt{b}",
                 f"  type(bdt{b}) :: brange{b}", f"  common /cblkt{b}/ brange{b}"] if (ntype and b == 1) else []
        units.append("\n".join([f"block data bd{b}", f"  !! doc of block data bd{b}", f"  integer :: bv{b}", f"  common /cblk{b}/ bv{b}"] + typed + [f"end block data bd{b}"]))
    files = {}
    nfiles = max(1, min(nfiles, max(1, len(units))))
    buckets = [[] for _ in range(nfiles)]
    for i, u in enumerate(units):
        buckets[i % nfiles].append(u)
    for i, b in enumerate(buckets):
        files[f"src/file{i + 1}.f90"] = ("\n".join(b) + "\n") if b else "! empty\n"
    if footnotes:
        # a Markdown footnote in a later paragraph of the comments of variables, arguments and some units (whichever of them is converted last)
        import re as _re
        pat = _re.compile(r"^(\s*)!! (argument q|argument of msub\d+|program variable \d+|module variable \d+|doc of block data bd\d+|internal procedure of prog\d+|helper)$")
        for name in [n for n in files if n.endswith(".f90")]:
            out, k = [], 0
            for line in files[name].split("\n"):
                out.append(line)
                m = pat.match(line)
                if m:
                    k += 1
                    ind = m.group(1)
                    out += [f"{ind}!!", f"{ind}!! more about it[^fn{k}] in a second paragraph", f"{ind}!!", f"{ind}!! [^fn{k}]: the footnote text number {k}"]
            files[name] = "\n".join(out)
    if extra_files:
        # non-Fortran sources documented through `extra_filetypes` (the caller sets the option)
        files["src/run_model.sh"] = "#!/bin/sh\n#! a shell script shipped with the sources\necho run\n"
        files["src/defaults.yml"] = "#! default parameters\nkey: value\n"
    if pages is not None:
        files["pages/index.md"] = "title: Guide\n\nTop page. See " + ("[sub](sub1/index.html) and " if pages >= 1 else "") + "[leaf](leaf0.html).\n" + ("[[mod1]]\n" if nmod and links else "")
        files["pages/leaf0.md"] = "title: Leaf zero\n\nBack to [top](index.html).\n"
        if pages >= 1:
            files["pages/sub1/index.md"] = "title: Sub one\n\nUp: [top](../index.html) and [leaf](leaf1.html)\n"
            files["pages/sub1/leaf1.md"] = "title: Leaf one\n\n[top](|page|/index.html)\n"
        if pages >= 2:
            files["pages/sub1/sub2/index.md"] = "title: Sub two\n\n[up](../index.html) [top](../../index.html)\n"
            files["pages/sub1/sub2/leaf2.md"] = "title: Leaf two\n\n[leaf1](../leaf1.html) " + ("[[mod1]]\n" if nmod and links else "\n")
    return files
