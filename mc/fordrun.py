"""In-process driver of the real ford package (the working tree under test).

build(files, opts, ...) writes a generated project into a private directory and
then calls the same functions ford.main calls, stopping after the requested
stage: parse -> correlate -> markdown -> docs -> write.
"""
from __future__ import annotations

import contextlib
import io
import itertools
import os
import shutil
import sys
import types
from pathlib import Path

from mc import core

os.environ.setdefault("COLUMNS", "10000")

_counter = itertools.count()
_patched = False
STAGES = ["parse", "correlate", "markdown", "docs", "write"]
FILE_ORDER = None  # None = sorted (pinned); or a callable(list[Path]) -> list[Path]
STUB_DOT = True


def _patch():
    """Harness-only monkeypatches: pinned file order, warm jinja template cache, dot stub."""
    global _patched
    if _patched:
        return
    core.use_repo()
    import ford.fortran_project as fp
    import ford.output as fo
    import jinja2

    real_find = fp.find_all_files

    def find_all_files(settings):
        files = sorted(real_find(settings))
        if FILE_ORDER is not None:
            files = FILE_ORDER(files)
        return files

    fp.find_all_files = find_all_files
    fp._real_find_all_files = real_find

    loaders = {}

    def FileSystemLoader(searchpath, *a, **k):
        key = tuple(str(p) for p in searchpath)
        if key not in loaders:
            loaders[key] = jinja2.FileSystemLoader(searchpath, *a, **k)
        return loaders[key]

    ns = types.SimpleNamespace(**{k: getattr(jinja2, k) for k in dir(jinja2) if not k.startswith("__")})
    ns.FileSystemLoader = FileSystemLoader
    fo.jinja2 = ns

    import graphviz

    real_pipe = graphviz.Digraph.pipe

    def pipe(self, *a, **k):
        if STUB_DOT:
            fmt = k.get("format") or (a[0] if a else getattr(self, "format", "svg"))
            svg = '<svg width="10pt" height="10pt" viewBox="0 0 10 10" xmlns="http://www.w3.org/2000/svg"></svg>'
            if k.get("encoding"):
                return svg
            return svg.encode()
        return real_pipe(self, *a, **k)

    graphviz.Digraph.pipe = pipe
    _patched = True


class Run:
    def __init__(self):
        self.root = None
        self.settings = None
        self.project = None
        self.docs = None
        self.proj_docs = None
        self.md = None
        self.page_tree = None
        self.log = ""
        self.error = None  # exception (or SystemExit) raised by ford
        self.stage_reached = None

    @property
    def out(self) -> Path:
        return Path(self.settings.output_dir)

    def cleanup(self):
        if self.root and Path(self.root).exists():
            shutil.rmtree(self.root, ignore_errors=True)


def new_root() -> Path:
    d = core.tmp_root() / f"p{next(_counter)}"
    if d.exists():
        shutil.rmtree(d)
    d.mkdir(parents=True)
    return d


def write_tree(root: Path, files: dict):
    for rel, text in files.items():
        p = root / rel
        p.parent.mkdir(parents=True, exist_ok=True)
        if isinstance(text, bytes):
            p.write_bytes(text)
        else:
            p.write_text(text)


def reset_state():
    import ford.sourceform as sf

    sf.namelist = sf.NameSelector()
    sf._EXTRA_TYPES_RE_CACHE.clear()
    try:
        from ford.md_admonition import AdmonitionPreprocessor  # noqa
    except Exception:
        pass


_fast = {"root": None, "settings": {}, "files": []}


def build_fast(files, opts=None, stage="correlate"):
    """Tree-level fast path (parse/correlate only): one scratch directory per process, ProjectSettings
    cached per option set, file list handed to Project directly, pygments highlighting stubbed.
    Everything that parses and correlates is still the real ford code."""
    _patch()
    import ford.fortran_project as fp
    import ford.sourceform as sf
    from ford.settings import ProjectSettings

    global FILE_ORDER
    if _fast["root"] is None:
        _fast["root"] = new_root()
    root = _fast["root"]
    for old in _fast["files"]:
        with contextlib.suppress(OSError):
            os.unlink(old)
    paths = []
    for rel, text in files.items():
        p = root / rel
        p.parent.mkdir(parents=True, exist_ok=True)
        if isinstance(text, bytes):
            p.write_bytes(text)
        else:
            p.write_text(text)
        paths.append(p)
    _fast["files"] = paths
    o = dict(preprocess=False, parallel=0, search=False, creation_date="DATE", year="2000")
    o.update(opts or {})
    key = repr(sorted(o.items(), key=lambda kv: kv[0]))
    run = Run()
    run.root = root
    buf = io.StringIO()
    cwd = os.getcwd()
    real_highlight = sf.highlight
    real_find = fp.find_all_files
    try:
        os.chdir(root)
        sf.highlight = lambda *a, **k: ""
        order = FILE_ORDER
        src_paths = sorted(p for p in paths if p.parts[len(root.parts)] == "src")
        fp.find_all_files = lambda settings: order(list(src_paths)) if order else list(src_paths)
        with contextlib.redirect_stdout(buf), contextlib.redirect_stderr(buf):
            try:
                reset_state()
                s = _fast["settings"].get(key)
                if s is None:
                    s = ProjectSettings(**o)
                    s.normalise_paths(root)
                    if not o.get("preprocess"):
                        s.fpp_extensions = []
                    _fast["settings"][key] = s
                run.settings = s
                run.project = fp.Project(s)
                run.stage_reached = "parse"
                if stage != "parse":
                    run.project.correlate()
                    run.stage_reached = "correlate"
            except (Exception, SystemExit) as e:  # noqa
                run.error = e
    finally:
        sf.highlight = real_highlight
        fp.find_all_files = real_find
        os.chdir(cwd)
        run.log = buf.getvalue()
    return run


def build(files, opts=None, stage="correlate", proj_body="", root=None, keep=False, settings_hook=None, cwd=None):
    """files: {relative path under the project root: text}. Sources conventionally under src/.
    opts: keyword arguments for ProjectSettings (typed values)."""
    _patch()
    import ford
    import ford.fortran_project
    import ford.output
    from ford._markdown import MetaMarkdown
    from ford.external_project import dump_modules
    from ford.pagetree import get_page_tree
    from ford.settings import ProjectSettings
    import copy
    import pathlib

    run = Run()
    run.root = Path(root) if root else new_root()
    write_tree(run.root, files)
    o = dict(preprocess=False, parallel=0, search=False, creation_date="DATE", year="2000")
    o.update(opts or {})
    buf = io.StringIO()
    saved_cwd = os.getcwd()
    try:
        # FORD may be started from anywhere: the project file's directory (default) or `cwd`
        os.chdir(cwd if cwd is not None else run.root)
        with contextlib.redirect_stdout(buf), contextlib.redirect_stderr(buf):
            try:
                reset_state()
                s = ProjectSettings(**o)
                s.normalise_paths(run.root)
                if not s.preprocess:
                    s.fpp_extensions = []
                if settings_hook:
                    settings_hook(s)
                run.settings = s
                if stage == "write" and not os.environ.get("VERIF_REPLICA_MAIN"):
                    # the complete pipeline is FORD's own ford.main(): only the objects it creates are recorded
                    _run_real_main(run, s, proj_body)
                    return run
                project = ford.fortran_project.Project(s)
                run.project = project
                run.stage_reached = "parse"
                if stage == "parse":
                    return run
                project.correlate()
                run.stage_reached = "correlate"
                if stage == "correlate":
                    return run
                aliases = copy.copy(s.alias)
                aliases.update(s.external)
                url_path = pathlib.Path(s.project_url)
                from ford.utils import url_from_path  # (as ford.main does)

                aliases.update(
                    {"url": url_from_path(url_path), "media": url_from_path(url_path / "media"), "page": url_from_path(url_path / "page")}
                )
                md = MetaMarkdown(
                    s.md_base_dir,
                    base_url=s.project_url,
                    extensions=s.md_extensions,
                    aliases=aliases,
                    project=project,
                )
                run.md = md
                run.proj_docs = md.reset().convert(proj_body, path=s.project_url)
                project.markdown(md)
                if s.summary is not None:
                    s.summary = md.convert(s.summary)
                if s.author_description is not None:
                    s.author_description = md.convert(s.author_description)
                run.stage_reached = "markdown"
                if stage == "markdown":
                    return run
                if s.page_dir is not None:
                    run.page_tree = get_page_tree(
                        s.page_dir, s.copy_subdir, s.output_dir, md, encoding=s.encoding
                    )
                docs = ford.output.Documentation(s, run.proj_docs, project, run.page_tree)
                run.docs = docs
                run.stage_reached = "docs"
                if stage == "docs":
                    return run
                docs.writeout()
                if s.externalize:
                    dump_modules(project, path=s.output_dir)
                run.stage_reached = "write"
            except (Exception, SystemExit) as e:  # noqa
                run.error = e
    finally:
        os.chdir(saved_cwd)
        run.log = buf.getvalue()
        if not keep and stage != "write" and run.root and not root:
            # sources are no longer needed once parsed (raw_src is held in memory)
            shutil.rmtree(run.root, ignore_errors=True)
    return run


def _run_real_main(run, settings, proj_body):
    """call ford.main(settings, project-file text) and record the Project / MetaMarkdown / Documentation it builds."""
    import ford
    import ford.fortran_project as fp
    import ford.output as fo

    real_project, real_docs, real_md = fp.Project, fo.Documentation, ford.MetaMarkdown

    class Project(real_project):
        def __init__(self, *a, **k):
            run.project = self
            super().__init__(*a, **k)
            run.stage_reached = "parse"

        def correlate(self, *a, **k):
            super().correlate(*a, **k)
            run.stage_reached = "correlate"

    class Documentation(real_docs):
        def __init__(self, data, proj_docs, project, pagetree):
            run.proj_docs, run.page_tree = proj_docs, pagetree
            run.stage_reached = "markdown"
            run.docs = self
            super().__init__(data, proj_docs, project, pagetree)
            run.stage_reached = "docs"

    def MetaMarkdown(*a, **k):
        run.md = real_md(*a, **k)
        return run.md

    fp.Project, fo.Documentation, ford.MetaMarkdown = Project, Documentation, MetaMarkdown
    try:
        ford.main(settings, proj_body)
        run.stage_reached = "write"
    finally:
        fp.Project, fo.Documentation, ford.MetaMarkdown = real_project, real_docs, real_md


def parse_source(text, name="t.f90", **opts):
    """Parse one in-memory file to a FortranSourceFile (no project)."""
    r = build({f"src/{name}": text}, opts, stage="parse")
    return r
