"""Core of the verification machinery: locating the code under test, the
per-check result collector (violations, known findings, evidence, replays) and
a fork-based parallel map used to shard exhaustive enumerations.

Nothing here samples: VERIF_SEED only rotates identifier pools / shard order.
"""
from __future__ import annotations

import hashlib
import json
import multiprocessing as mp
import os
import sys
import time
import traceback
from pathlib import Path

VERIF = Path(__file__).resolve().parent.parent
REPO = Path(os.environ.get("VERIF_REPO", "/repo")).resolve()
SEED = int(os.environ.get("VERIF_SEED", "0") or 0)
WORKERS = int(os.environ.get("VERIF_WORKERS", "0") or 0) or min(16, os.cpu_count() or 1)

os.environ.setdefault("FORD_DEBUGGING", "1")  # no rich progress bars


def use_repo():
    """Make `import ford` resolve to the working tree under test."""
    p = str(REPO)
    if sys.path[0] != p:
        if p in sys.path:
            sys.path.remove(p)
        sys.path.insert(0, p)
    for name in list(sys.modules):
        if name == "ford" or name.startswith("ford."):
            mod = sys.modules[name]
            f = getattr(mod, "__file__", "") or ""
            if f and not f.startswith(p + os.sep):
                del sys.modules[name]
    import ford  # noqa

    assert str(Path(ford.__file__).resolve()).startswith(p + os.sep), ford.__file__
    return ford


def tmp_root() -> Path:
    base = Path(os.environ.get("VERIF_TMP", "/var/tmp"))
    d = base / f"ford-verif-{os.getpid()}"
    d.mkdir(parents=True, exist_ok=True)
    return d


def digest(obj) -> str:
    return hashlib.sha1(
        json.dumps(obj, sort_keys=True, default=str).encode()
    ).hexdigest()[:12]


# ---------------------------------------------------------------------------
# parallel map over shards (long-lived forked workers, no fork per execution)
# ---------------------------------------------------------------------------

_WORK_FN = None


def _call(item):
    try:
        return ("ok", _WORK_FN(item))
    except BaseException as e:  # harness error inside a worker
        return ("err", f"{type(e).__name__}: {e}\n{traceback.format_exc()}")


def pmap(fn, items, workers=None, chunksize=1):
    """Apply fn to every item in forked workers; returns results in order.
    A harness exception in a worker is re-raised here (exit 2, never a verdict)."""
    global _WORK_FN
    items = list(items)
    workers = workers or WORKERS
    _WORK_FN = fn
    if workers <= 1 or len(items) <= 1:
        out = [_call(i) for i in items]
    else:
        ctx = mp.get_context("fork")
        with ctx.Pool(min(workers, len(items))) as pool:
            out = pool.map(_call, items, chunksize=chunksize)
    res = []
    for tag, val in out:
        if tag == "err":
            raise HarnessError(val)
        res.append(val)
    return res


class HarnessError(Exception):
    pass


# ---------------------------------------------------------------------------
# result collection
# ---------------------------------------------------------------------------


class Stats:
    """Mergeable counters gathered by shards."""

    def __init__(self):
        self.evaluations = 0
        self.transitions = 0
        self.states = set()  # digests of canonical states / observations
        self.nontrivial = set()  # digests of distinct non-trivial cases
        self.strata = {}  # stratum -> [evaluations, violations]
        self.samples = []
        self.violations = []  # list of dict
        self.caps = []
        self.unjudged = 0
        self.extra = {}

    def stratum(self, name, viol=0, n=1):
        s = self.strata.setdefault(name, [0, 0])
        s[0] += n
        s[1] += viol

    def sample(self, s, limit=6):
        if len(self.samples) < limit:
            self.samples.append(s)

    def violation(self, clause, site, features, input, observed, expected, note=""):
        self.violations.append(
            dict(
                clause=clause,
                site=site,
                features=features,
                input=input,
                observed=observed,
                expected=expected,
                note=note,
            )
        )

    def merge(self, other: "Stats"):
        self.evaluations += other.evaluations
        self.transitions += other.transitions
        self.states |= other.states
        self.nontrivial |= other.nontrivial
        for k, (n, v) in other.strata.items():
            s = self.strata.setdefault(k, [0, 0])
            s[0] += n
            s[1] += v
        for s in other.samples:
            self.sample(s, 8)
        self.violations.extend(other.violations)
        self.caps.extend(other.caps)
        self.unjudged += other.unjudged
        for k, v in other.extra.items():
            if isinstance(v, (int, float)):
                self.extra[k] = self.extra.get(k, 0) + v
            elif isinstance(v, set):
                self.extra[k] = self.extra.get(k, set()) | v
            elif isinstance(v, list):
                self.extra.setdefault(k, [])
                self.extra[k].extend(v)
            else:
                self.extra[k] = v
        return self


def load_known(prop):
    f = VERIF / "known_findings.json"
    if not f.exists():
        return []
    data = json.loads(f.read_text())
    return [e for e in data.get("findings", []) if e["property"] == prop]


def _matches(finding, v):
    for fld in ("clause", "site"):
        want = finding.get(fld)
        if want and (v[fld] not in want if isinstance(want, list) else v[fld] != want):
            return False
    for k, want in (finding.get("match") or {}).items():
        have = v["features"].get(k)
        if isinstance(want, list):
            if have not in want:
                return False
        elif have != want:
            return False
    return True


def finish(
    prop,
    tier,
    level,
    stats: Stats,
    t0,
    rule,
    assumptions,
    exhaustive=True,
    traces_validated=None,
    extra_cov=None,
    bounds=None,
):
    """Classify violations against known_findings.json, write evidence + replays,
    print the verdict lines and return the exit code."""
    known = load_known(prop)
    new, old = [], {}
    for v in stats.violations:
        for f in known:
            if _matches(f, v):
                old.setdefault(f["id"], []).append(v)
                break
        else:
            new.append(v)
    replay_dir = VERIF / "replays"
    replay_dir.mkdir(exist_ok=True)
    for fid, vs in sorted(old.items()):
        f = next(k for k in known if k["id"] == fid)
        print(
            f"KNOWN-FINDING: property={prop} {fid}: {f['description']} "
            f"({len(vs)} explored case(s) fail this way; e.g. {json.dumps(vs[0]['input'], default=str)[:200]})"
        )
    # report new violations grouped by (clause, site); one replay per group (smallest input)
    groups = {}
    for v in new:
        groups.setdefault((v["clause"], v["site"]), []).append(v)
    for (clause, site), vs in sorted(groups.items()):
        vs.sort(key=lambda v: len(json.dumps(v["input"], default=str)))
        v = vs[0]
        path = replay_dir / f"{prop}-{digest([clause, site, v['input']])}.json"
        path.write_text(
            json.dumps(
                dict(property=prop, count_in_group=len(vs), **v), indent=1, default=str
            )
        )
        print(
            f"VIOLATION property={prop} replay={path} clause={clause} site={site} "
            f"cases={len(vs)} observed={json.dumps(v['observed'], default=str)[:300]} "
            f"expected={json.dumps(v['expected'], default=str)[:300]}"
        )
    wall = time.time() - t0
    cov = dict(
        evaluations=stats.evaluations,
        distinct_nontrivial=len(stats.nontrivial),
        rule=rule,
        samples=stats.samples[:8] or ["<none>"],
        states=max(len(stats.states), 1),
        transitions=max(stats.transitions, 1),
        traces_validated_against_impl=(
            stats.evaluations if traces_validated is None else traces_validated
        ),
        exhaustive=bool(exhaustive and not stats.caps),
        caps=stats.caps,
        unjudged_inputs=stats.unjudged,
        strata={k: dict(evaluations=n, violations=v) for k, (n, v) in sorted(stats.strata.items())},
        bounds=bounds or {},
        known_findings_hit={k: len(v) for k, v in old.items()},
        workers=WORKERS,
    )
    for k, v in stats.extra.items():
        cov.setdefault(k, len(v) if isinstance(v, set) else v)
    if extra_cov:
        cov.update(extra_cov)
    ev = dict(
        property_id=prop,
        tier=tier,
        seed=SEED,
        level=level,
        coverage=cov,
        assumptions=assumptions,
        wall_s=round(wall, 2),
        violations=len(new),
    )
    if not os.environ.get("VERIF_NO_EVIDENCE"):
        evdir = VERIF / "evidence"
        evdir.mkdir(exist_ok=True)
        (evdir / f"{prop}.json").write_text(json.dumps(ev, indent=1, default=str))
    print(
        f"[{prop} {tier}] evaluations={stats.evaluations} states={len(stats.states)} "
        f"transitions={stats.transitions} distinct_nontrivial={len(stats.nontrivial)} "
        f"unjudged={stats.unjudged} new_violations={len(new)} known={sum(len(v) for v in old.values())} "
        f"exhaustive={cov['exhaustive']} wall={wall:.1f}s"
    )
    return 1 if new else 0
