"""Abstraction of a generated documentation tree: pages, ids, outgoing URLs, visible text,
search index; and the link resolver used by C05/C09/C10/C11/C16/C17."""
from __future__ import annotations

import html.parser
import json
import os
import posixpath
import re
import urllib.parse
from pathlib import Path

URL_ATTRS = ("href", "src", "action", "xlink:href", "data", "poster")
EXTERNAL = re.compile(r"^(https?:|mailto:|javascript:|data:|//|ftp:|tel:)", re.I)


class _Scan(html.parser.HTMLParser):
    def __init__(self):
        super().__init__(convert_charrefs=True)
        self.ids = []
        self.links = []  # (tag, attr, url)
        self.text = []
        self.skip = 0
        self.stack = []
        self.regions = {}  # element id -> text collected below it (for elements carrying an id)
        self._open_ids = []

    def handle_starttag(self, tag, attrs):
        a = dict(attrs)
        if tag in ("script", "style"):
            self.skip += 1
        if "id" in a and a["id"] is not None:
            self.ids.append(a["id"])
        if tag == "a" and a.get("name") and a.get("name") != a.get("id"):
            self.ids.append(a["name"])
        for k in URL_ATTRS:
            if k in a and a[k] is not None:
                self.links.append((tag, k, a[k]))
        void = tag in ("br", "hr", "img", "input", "link", "meta", "area", "base", "col", "embed", "source", "track", "wbr")
        if not void:
            self.stack.append((tag, a.get("id")))
            if a.get("id"):
                self._open_ids.append(a["id"])
                self.regions.setdefault(a["id"], [])

    def handle_startendtag(self, tag, attrs):
        a = dict(attrs)
        if "id" in a and a["id"] is not None:
            self.ids.append(a["id"])
        for k in URL_ATTRS:
            if k in a and a[k] is not None:
                self.links.append((tag, k, a[k]))

    def handle_endtag(self, tag):
        if tag in ("script", "style") and self.skip:
            self.skip -= 1
        for i in range(len(self.stack) - 1, -1, -1):
            if self.stack[i][0] == tag:
                for (_, eid) in self.stack[i:]:
                    if eid and eid in self._open_ids:
                        self._open_ids.remove(eid)
                del self.stack[i:]
                break

    def handle_data(self, data):
        if self.skip:
            return
        self.text.append(data)
        for eid in self._open_ids:
            self.regions[eid].append(data)


class Page:
    def __init__(self, rel, raw):
        self.rel = rel
        self.raw = raw
        s = _Scan()
        try:
            s.feed(raw)
            s.close()
        except Exception:  # noqa
            pass
        self.ids = s.ids
        self.links = s.links
        self.text = " ".join(" ".join(s.text).split())
        self.regions = {k: " ".join(" ".join(v).split()) for k, v in s.regions.items()}


class Site:
    def __init__(self, out_dir):
        self.root = Path(out_dir)
        self.files = set()
        self.pages = {}
        for d, _, fs in os.walk(self.root):
            for f in fs:
                p = Path(d) / f
                rel = p.relative_to(self.root).as_posix()
                self.files.add(rel)
                if rel.endswith(".html") and not rel.startswith(("css/", "js/", "webfonts/")):
                    self.pages[rel] = Page(rel, p.read_text(errors="replace"))
        self.search = []
        sp = self.root / "search" / "search_database.json"
        if sp.exists():
            try:
                text = sp.read_text()
                # the file is a script: `var tipuesearch = {...}`
                text = text[text.index("{"):] if "{" in text else text
                self.search = json.loads(text).get("pages", [])
            except Exception as e:  # noqa
                self.search = [{"error": repr(e)}]

    def resolve(self, page_rel, url):
        """Return (problem or None, target rel, fragment)."""
        if EXTERNAL.match(url):
            return None, None, None
        u = urllib.parse.urlsplit(url)
        if u.scheme or u.netloc:
            return f"non-relative URL {url!r}", None, None
        path = urllib.parse.unquote(u.path)
        frag = urllib.parse.unquote(u.fragment)
        if path.startswith("/"):
            return f"absolute path {url!r}", None, None
        if path == "":
            target = page_rel
        else:
            target = posixpath.normpath(posixpath.join(posixpath.dirname(page_rel), path))
        if target.startswith(".."):
            return f"leaves the output tree {url!r}", None, None
        if target not in self.files:
            if (self.root / target).is_dir() and path.endswith("/"):
                target = posixpath.join(target, "index.html")
            if target not in self.files:
                return f"target file missing {url!r} -> {target}", target, frag
        if frag:
            pg = self.pages.get(target)
            # HTML: the fragment is first compared as it stands, then percent-decoded
            if pg is not None and u.fragment not in pg.ids and frag not in pg.ids:
                return f"fragment missing {url!r} (#{frag} not in {target})", target, frag
        return None, target, frag

    def link_problems(self):
        """[(page, tag, attr, url, problem)] over every page and the search index."""
        out = []
        for rel, pg in sorted(self.pages.items()):
            for (tag, attr, url) in pg.links:
                if url.strip() == "":
                    continue
                prob, _, _ = self.resolve(rel, url)
                if prob:
                    out.append((rel, tag, attr, url, prob))
        for e in self.search:
            for k in ("loc", "url"):
                if k in e and isinstance(e[k], str):
                    prob, _, _ = self.resolve("search.html", e[k])
                    if prob:
                        out.append(("search/search_database.json", "entry", k, e[k], prob))
        return out

    def duplicate_ids(self):
        out = []
        for rel, pg in sorted(self.pages.items()):
            seen = set()
            for i in pg.ids:
                if i in seen:
                    out.append((rel, i))
                seen.add(i)
        return out

    def mentions(self, needle):
        """files (text-like) that contain `needle`."""
        out = []
        for rel in sorted(self.files):
            if rel.startswith(("css/", "js/", "webfonts/")) or rel.endswith((".png", ".ico")):
                continue
            try:
                if needle in (self.root / rel).read_text(errors="replace"):
                    out.append(rel)
            except Exception:  # noqa
                pass
        return out


def classify_link(page, url, problem):
    """coarse site class of a broken link: <page directory>/<target directory or kind>"""
    pdir = page.split("/")[0] if "/" in page else page
    u = urllib.parse.urlsplit(url)
    t = posixpath.normpath(posixpath.join(posixpath.dirname(page), u.path)) if u.path else page
    tdir = t.split("/")[0] if "/" in t else t
    kind = "fragment" if "fragment missing" in problem else ("missing-file" if "target file missing" in problem else "not-relative")
    frag_class = re.sub(r"[-~].*$", "", u.fragment) if u.fragment else ""
    return f"{kind}:{pdir}->{tdir}" + (f"#{frag_class}" if frag_class else "")
