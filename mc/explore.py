"""The explorer: stateless model checking of "scenario + implementation".

A scenario is a function run(ch) that makes every nondeterministic / input-shaping
decision through ch.choose(label, n) -> 0..n-1.  Choice 0 is the *default*
(canonical spelling, source order, insertion order, no fault).

  explore(run, bound=None)  -> every complete choice sequence (full product)
  explore(run, bound=d)     -> every execution with at most d non-default choices

Replaying a prefix must reproduce the same labels/arity: a mismatch is a hard
error (lost determinism), never a verdict.
"""
from __future__ import annotations


class Divergence(Exception):
    pass


class Chooser:
    def __init__(self, prefix=(), expect=None):
        self.prefix = list(prefix)
        self.expect = expect  # optional [(label, n)] recorded on the parent run
        self.trace = []  # (label, n, choice)

    def choose(self, label, n):
        i = len(self.trace)
        if n <= 0:
            raise Divergence(f"choice point {label!r} with no alternatives")
        if i < len(self.prefix):
            c = self.prefix[i]
            if c >= n:
                raise Divergence(f"replay: choice {c} out of range at {label!r} (n={n})")
            if self.expect is not None and i < len(self.expect):
                if self.expect[i] != (label, n):
                    raise Divergence(
                        f"replay diverged at point {i}: expected {self.expect[i]}, got {(label, n)}"
                    )
        else:
            c = 0
        self.trace.append((label, n, c))
        return c

    def pick(self, label, options):
        return options[self.choose(label, len(options))]

    @property
    def choices(self):
        return [c for (_, _, c) in self.trace]

    @property
    def deviations(self):
        return sum(1 for (_, _, c) in self.trace if c != 0)


def explore(run, bound=None, root=(), max_runs=None):
    """Yield (chooser, observation) for every execution reachable from `root`
    within the deviation bound (None = full product)."""
    stack = [(list(root), None)]
    runs = 0
    while stack:
        prefix, expect = stack.pop()
        ch = Chooser(prefix, expect)
        obs = run(ch)
        runs += 1
        yield ch, obs
        if max_runs is not None and runs >= max_runs:
            return
        tr = ch.trace
        labels = [(l, n) for (l, n, _) in tr]
        dev = 0
        devs_before = []
        for (_, _, c) in tr:
            devs_before.append(dev)
            if c:
                dev += 1
        for i in range(len(tr) - 1, len(prefix) - 1, -1):
            if bound is not None and devs_before[i] + 1 > bound:
                continue
            n = tr[i][1]
            base = [c for (_, _, c) in tr[:i]]
            for alt in range(n - 1, 0, -1):
                stack.append((base + [alt], labels[: i + 1]))


def count_product(run):
    n = 0
    for _ in explore(run):
        n += 1
    return n
