"""Abstract Fortran project model with a renderer and expected canonical records.

Every item knows (i) how to render itself into statements, asking the Style
object (a thin wrapper around the explorer's chooser) for every spelling freedom,
and (ii) which canonical records (mc.canon format) it declares.  The expected
tree is therefore computed from the abstract model and never by parsing text.
"""
from __future__ import annotations

import re

from mc.canon import nb


def outside_literals(s, fn):
    """apply fn to the parts of s that are outside character literals."""
    out, buf, lit, i = [], [], None, 0
    while i < len(s):
        c = s[i]
        if lit:
            buf.append(c)
            if c == lit:
                if i + 1 < len(s) and s[i + 1] == lit:
                    buf.append(lit)
                    i += 1
                else:
                    out.append("".join(buf))
                    buf, lit = [], None
        elif c in "'\"":
            out.append(fn("".join(buf)))
            buf, lit = [c], c
        else:
            buf.append(c)
        i += 1
    out.append("".join(buf) if lit else fn("".join(buf)))
    return "".join(out)


class Style:
    """Spelling / layout choice sites.  Choice 0 is always the canonical spelling."""

    def __init__(self, ch=None):
        self.ch = ch
        self._kw = None
        self._id = None

    def pick(self, label, options):
        if self.ch is None:
            return options[0]
        return options[self.ch.choose(label, len(options))]

    def kw(self, text):
        """keyword(s) in the chosen letter case (one global site)."""
        if self._kw is None:
            self._kw = self.pick("keyword-case", ["lower", "upper", "capital"])
        if self._kw == "upper":
            return text.upper()
        if self._kw == "capital":
            return " ".join(w.capitalize() for w in text.split(" "))
        return text

    def ref(self, name):
        """a *second* mention of an identifier (argument list vs declaration, END name, access
        statement...) may be written in a different letter case (one global site)."""
        if self._id is None:
            self._id = self.pick("identifier-case-of-later-mentions", ["same", "upper"])
        return name.upper() if self._id == "upper" else name

    def end(self, what, name):
        forms = ["end what name", "end what", "end", "endwhat", "endwhat name"]
        if what in ("subroutine", "function", "program"):
            forms.append("label end what name")  # the END statement of a procedure / program carrying a statement label
        form = self.pick(f"end-form:{what}", forms)
        w = self.kw(what)
        e = self.kw("end")
        if form == "label end what name":
            return f"99 {e} {w} {self.ref(name)}" if name else f"99 {e} {w}"
        if form == "end":
            return e
        if form == "end what":
            return f"{e} {w}"
        if form == "endwhat":
            return f"{e}{w.replace(' ', '')}"
        if form == "endwhat name" and name:
            return f"{e}{w.replace(' ', '')} {self.ref(name)}"
        if name:
            return f"{e} {w} {self.ref(name)}"
        return f"{e} {w}"


# ---------------------------------------------------------------------------
# declarations of data objects
# ---------------------------------------------------------------------------

# (label, [spellings...], expected fields)
TYPE_SPECS = [
    ("integer", ["integer"], dict(vartype="integer")),
    ("integer4", ["integer(4)", "integer(kind=4)", "integer*4", "integer( kind = 4 )", "integer * 4"], dict(vartype="integer", varkind="4")),
    ("real", ["real"], dict(vartype="real")),
    ("realdp", ["real(dp)", "real(kind=dp)", "real( dp )"], dict(vartype="real", varkind="dp")),
    ("real8", ["real(8)", "real*8", "real(kind=8)", "real * 8", "real *8"], dict(vartype="real", varkind="8")),
    ("double", ["double precision", "doubleprecision", "double  precision"], dict(vartype="double precision")),
    ("complex8", ["complex(8)", "complex(kind=8)"], dict(vartype="complex", varkind="8")),
    ("dcomplex", ["double complex", "doublecomplex"], dict(vartype="double complex")),
    ("logical", ["logical"], dict(vartype="logical")),
    ("logical1", ["logical(1)", "logical(kind=1)", "logical*1"], dict(vartype="logical", varkind="1")),
    ("char", ["character"], dict(vartype="character", strlen="1")),
    ("char10", ["character(10)", "character(len=10)", "character*10", "character*(10)", "character( len = 10 )", "character * 10", "character * (10)"],
     dict(vartype="character", strlen="10")),
    ("charstar", ["character(*)", "character(len=*)", "character*(*)", "character * (*)"], dict(vartype="character", strlen="*")),
    ("charcolon", ["character(:)", "character(len=:)"], dict(vartype="character", strlen=":")),
    # a character literal inside the kind selector
    ("charkindlit", ["character(len=10, kind=selected_char_kind('ascii'))", "character(10, selected_char_kind('ascii'))", "character(kind=selected_char_kind('ascii'), len=10)"],
     dict(vartype="character", strlen="10", varkind="selected_char_kind('ascii')")),
    ("charlenkind", ["character(len=10,kind=ck)", "character(10,ck)", "character(kind=ck,len=10)", "character(10,kind=ck)",
                     "character(len=10, kind=ck)"], dict(vartype="character", strlen="10", varkind="ck")),
    # kind / length selectors that are expressions (function references with several arguments, operators)
    ("realsrk", ["real(selected_real_kind(6,30))", "real(kind=selected_real_kind(6,30))", "real(kind=selected_real_kind(6, 30))",
                 "real( selected_real_kind(6, 30) )", "real(kind = selected_real_kind(6,30))"], dict(vartype="real", varkind="selected_real_kind(6,30)")),
    ("intexpr", ["integer(2*ck)", "integer(kind=2*ck)", "integer(kind=2 * ck)"], dict(vartype="integer", varkind="2*ck")),
    ("charlenexpr", ["character(max(2,3))", "character(len=max(2,3))", "character(len=max(2, 3))", "character*(max(2,3))"],
     dict(vartype="character", strlen="max(2,3)")),
    ("charlendiv", ["character(len=dp/2)", "character(dp/2)", "character(len = dp/2)"], dict(vartype="character", strlen="dp/2")),
    ("charlenexprkind", ["character(len=max(2,3),kind=ck)", "character(max(2,3),ck)", "character(kind=ck,len=max(2,3))",
                         "character(max(2, 3), kind=ck)"], dict(vartype="character", strlen="max(2,3)", varkind="ck")),
    ("type", ["type(tname)", "type( tname )", "type (tname)"], dict(vartype="type", proto="tname")),
    ("class", ["class(tname)", "class (tname)"], dict(vartype="class", proto="tname")),
    ("classstar", ["class(*)"], dict(vartype="class", proto="*")),
    ("procedure", ["procedure(iface)", "procedure (iface)"], dict(vartype="procedure", proto="iface")),
]
TYPE_SPEC = {t[0]: t for t in TYPE_SPECS}

# attribute -> (declaration spelling alternatives, statement form or None, expected effect)
ATTRS = {
    "allocatable": (["allocatable"], "allocatable", dict(attr="allocatable")),
    "pointer": (["pointer"], "pointer", dict(attr="pointer")),
    "target": (["target"], "target", dict(attr="target")),
    "save": (["save"], "save", dict(attr="save")),
    "volatile": (["volatile"], "volatile", dict(attr="volatile")),
    "asynchronous": (["asynchronous"], "asynchronous", dict(attr="asynchronous")),
    "contiguous": (["contiguous"], None, dict(attr="contiguous")),
    "value": (["value"], "value", dict(attr="value")),
    "optional": (["optional"], "optional", dict(optional=True)),
    "intent_in": (["intent(in)", "intent( in )", "intent (in)"], "intent(in)", dict(intent="in")),
    "intent_out": (["intent(out)"], "intent(out)", dict(intent="out")),
    "intent_inout": (["intent(inout)", "intent(in out)", "intent( inout )"], "intent(inout)", dict(intent="inout")),
    "dimension": (["dimension(3)", "dimension( 3 )", "dimension (3)"], "dimension", dict(shape="(3)")),
    "dimension2": (["dimension(2,3)", "dimension(2, 3)"], "dimension", dict(shape="(2,3)")),
    "parameter": (["parameter"], "parameter", dict(parameter=True)),
    "bindc": (["bind(c)", "bind(C)", "bind( c )"], "bind(c)", dict(attr="bind(c)")),
}


class Var:
    """One type-declaration statement declaring one or more names."""

    def __init__(self, names, tspec="integer", attrs=(), shape="", initial=None, points=False, role="variable"):
        self.names = [names] if isinstance(names, str) else list(names)
        self.tspec = tspec
        self.attrs = list(attrs)
        self.shape = shape  # entity-decl array spec, e.g. "(3)"
        self.initial = initial
        self.points = points
        self.role = role
        self.stmt_ok = True  # attribute statements are not allowed inside a derived-type definition

    def init_of(self, k):
        return self.initial[k] if isinstance(self.initial, (list, tuple)) else self.initial

    def lines(self, st: Style, site):
        label, spellings, _ = TYPE_SPEC[self.tspec]
        ts = st.pick(f"{site}:typespec:{label}", spellings)
        # keyword case of the type keyword
        head, sep, tail = ts.partition("(") if "(" in ts else ts.partition("*")
        ts = st.kw(head) + sep + tail
        decl_attrs, stmt_attrs = [], []
        for a in self.attrs:
            spell, stmt, _ = ATTRS[a]
            where = "decl"
            if stmt is not None and self.stmt_ok:
                # (the last alternative: a statement after the declaration that spells the names in capitals, as legacy code does)
                where = st.pick(f"{site}:attr-placement:{a}", ["decl", "stmt-after", "stmt-before", "stmt-after-capitals"])
            if where == "decl":
                s = st.pick(f"{site}:attr-spelling:{a}", spell)
                decl_attrs.append(st.kw(s.split("(")[0]) + (("(" + s.split("(", 1)[1]) if "(" in s else ""))
            else:
                stmt_attrs.append((a, stmt, where))
        ents = []
        dim_in_stmt = any(a in ("dimension", "dimension2") for a, _, _ in stmt_attrs)
        for k, n in enumerate(self.names):
            e = n + self.shape
            if self.initial is not None and not any(a == "parameter" for a, _, _ in stmt_attrs):
                e += (" => " if self.points else " = ") + self.init_of(k)
            ents.append(e)
        if decl_attrs or self.initial is not None:
            dc = " :: "
        else:
            dc = st.pick(f"{site}:double-colon", [" :: ", " ", "::"])
        line = ts + "".join(", " + a for a in decl_attrs) + dc + ", ".join(ents)
        compact = st.pick(f"{site}:blanks", ["normal", "compact"])
        if compact == "compact":
            line = outside_literals(line, lambda t: t.replace(", ", ",").replace(" :: ", "::").replace(" = ", "=").replace(" => ", "=>"))
        before, after = [], []
        for a, stmt, where in stmt_attrs:
            ref = (lambda n: n.upper()) if where == "stmt-after-capitals" else st.ref
            names = ", ".join(ref(n) for n in self.names)
            if a == "parameter":
                s = st.kw("parameter") + st.pick(f"{site}:parameter-stmt-blank", [" (", "("]) + ", ".join(f"{ref(n)} = {self.init_of(k)}" for k, n in enumerate(self.names)) + ")"
            elif a in ("dimension", "dimension2"):
                shp = ATTRS[a][2]["shape"]
                form = st.pick(f"{site}:dimension-stmt-form", ["dimension :: x(s)", "dimension x(s)"])
                sep = " :: " if "::" in form else " "
                gap = st.pick(f"{site}:dimension-stmt-name-blank", ["", " "])
                s = st.kw("dimension") + sep + ", ".join(f"{ref(n)}{gap}{shp}" for n in self.names)
            else:
                form = st.pick(f"{site}:attr-stmt-form:{a}", ["a :: x", "a x"])
                kwpart = stmt.split("(")[0]
                rest = ("(" + stmt.split("(", 1)[1]) if "(" in stmt else ""
                s = st.kw(kwpart) + rest + (" :: " if "::" in form else " ") + names
            (before if where == "stmt-before" else after).append(s)
        return before + [line] + after

    def records(self, path, **extra):
        _, _, exp = TYPE_SPEC[self.tspec]
        out = []
        for k, n in enumerate(self.names):
            r = dict(path="/".join(path), kind="variable", name=n.lower(), role=self.role,
                     vartype=exp["vartype"], varkind=exp.get("varkind"), strlen=exp.get("strlen"),
                     proto=exp.get("proto"), attribs=[], shape=nb(self.shape), intent="", optional=False, parameter=False,
                     initial=nb(self.init_of(k)) if self.initial is not None else None, points=self.points)
            for a in self.attrs:
                eff = ATTRS[a][2]
                if "attr" in eff:
                    r["attribs"].append(eff["attr"])
                for k in ("optional", "intent", "parameter"):
                    if k in eff:
                        r[k] = eff[k]
                if "shape" in eff:
                    r["shape"] = eff["shape"]
            r["attribs"].sort()
            r.update(extra)
            out.append(r)
        return out


# ---------------------------------------------------------------------------
# other specification items
# ---------------------------------------------------------------------------


class Item:
    def spec(self, st, site):
        return []

    def contains(self, st, site):
        return []

    def records(self, path):
        return []


class Fixed(Item):
    """Render an item with the default spelling only (it contributes no choice sites)."""

    def __init__(self, item):
        self.item = item

    def spec(self, st, site):
        return self.item.spec(Style(None), site)

    def contains(self, st, site):
        return self.item.contains(Style(None), site)

    def records(self, path):
        return self.item.records(path)

    def __getattr__(self, name):
        return getattr(self.__dict__["item"], name)


class VarItem(Item):
    def __init__(self, var):
        self.var = var

    def spec(self, st, site):
        return self.var.lines(st, site)

    def records(self, path):
        return self.var.records(path)


class TypeDef(Item):
    def __init__(self, name, extends=None, abstract=False, comps=(), bindings=(), generics=(), finals=(), sequence=False, bindc=False):
        self.name, self.extends, self.abstract = name, extends, abstract
        self.comps, self.bindings, self.generics, self.finals = list(comps), list(bindings), list(generics), list(finals)
        self.sequence, self.bindc = sequence, bindc

    def spec(self, st, site):
        attrs = []
        if self.abstract:
            attrs.append(st.kw("abstract"))
        if self.extends:
            attrs.append(st.kw("extends") + st.pick(f"{site}:extends-blank", ["(", " ( "]) + st.ref(self.extends) + ")")
        if self.bindc:
            attrs.append(st.kw("bind") + "(c)")
        if attrs:
            head = st.kw("type") + ", " + ", ".join(attrs) + " :: " + self.name
        else:
            head = st.kw("type") + st.pick(f"{site}:type-double-colon", [" :: ", " "]) + self.name
        out = [head]
        if self.sequence:
            out.append("  " + st.kw("sequence"))
        for i, c in enumerate(self.comps):
            c.stmt_ok = False
            out += ["  " + l for l in c.lines(st, f"{site}:comp{i}")]
        if self.bindings or self.generics or self.finals:
            out.append(st.kw("contains"))
            for (bname, target, deferred_iface) in self.bindings:
                if deferred_iface:
                    out.append(f"  {st.kw('procedure')}({deferred_iface}), {st.kw('deferred')} :: {bname}")
                elif target and target != bname:
                    form = st.pick(f"{site}:binding-arrow-blanks", [" => ", "=>"])
                    out.append(f"  {st.kw('procedure')} :: {bname}{form}{st.ref(target)}")
                else:
                    dc = st.pick(f"{site}:binding-double-colon", [" :: ", " "])
                    out.append(f"  {st.kw('procedure')}{dc}{bname}")
            for (gname, specifics) in self.generics:
                out.append(f"  {st.kw('generic')} :: {gname} => " + ", ".join(st.ref(s) for s in specifics))
            if self.finals:
                form = st.pick(f"{site}:final-one-line", ["one", "many"]) if len(self.finals) > 1 else "one"
                fsep = st.pick(f"{site}:final-double-colon", [" :: ", " "])
                if form == "one":
                    out.append(f"  {st.kw('final')}{fsep}" + ", ".join(st.ref(f) for f in self.finals))
                else:
                    out += [f"  {st.kw('final')}{fsep}{st.ref(f)}" for f in self.finals]
        out.append(st.end("type", self.name))
        return out

    def records(self, path):
        attribs = []
        if self.abstract:
            attribs.append("abstract")
        if self.bindc:
            attribs.append("bind(c)")
        me = dict(path="/".join(path), kind="type", name=self.name.lower(), extends=self.extends.lower() if self.extends else None,
                  attribs=sorted(attribs), sequence=self.sequence, parameters=[])
        sub = path + (f"type:{self.name.lower()}",)
        out = [me]
        for c in self.comps:
            c.role = "component"
            out += c.records(sub)
        for (bname, target, deferred_iface) in self.bindings:
            out.append(dict(path="/".join(sub), kind="binding", name=bname.lower(), generic=False, deferred=bool(deferred_iface),
                            proto=deferred_iface.lower() if deferred_iface else None, attribs=[],
                            bindings=[(target or bname).lower()]))
        for (gname, specifics) in self.generics:
            out.append(dict(path="/".join(sub), kind="binding", name=gname.lower(), generic=True, deferred=False, proto=None,
                            attribs=[], bindings=[s.lower() for s in specifics]))
        for f in self.finals:
            out.append(dict(path="/".join(sub), kind="final", name=f.lower()))
        return out


class Proc(Item):
    """subroutine / function; usable as module procedure, internal procedure, external procedure,
    or interface body."""

    def __init__(self, kind, name, args=(), result=None, rettype=None, prefixes=(), decls=(), body=(), internal=(), bindc=None,
                 items=(), result_attrs=()):
        self.result_attrs = list(result_attrs)  # attributes of the result variable (each in the declaration or as a statement of its own)
        self.kind, self.name, self.args = kind, name, list(args)  # args: list of Var (one name each) or str (undeclared -> implicit)
        self.result, self.rettype = result, rettype  # rettype: tspec label in the prefix, or None (declared in body / implicit)
        self.prefixes, self.decls, self.body, self.internal = list(prefixes), list(decls), list(body), list(internal)
        self.bindc = bindc
        self.items = list(items)  # further specification items (types, interfaces, ...)
        self.role = "proc"

    def argname(self, a):
        return a if isinstance(a, str) else a.names[0]

    def header(self, st, site):
        pre = [st.kw(p) for p in self.prefixes]
        if self.kind == "function" and self.rettype:
            label, spellings, _ = TYPE_SPEC[self.rettype]
            ts = st.pick(f"{site}:rettype:{label}", spellings)
            head, sep, tail = ts.partition("(") if "(" in ts else ts.partition("*")
            pre_t = st.kw(head) + sep + tail
            order = st.pick(f"{site}:prefix-order", ["type-last", "type-first"]) if pre else "type-last"
            pre = pre + [pre_t] if order == "type-last" else [pre_t] + pre
        args = ", ".join(st.ref(self.argname(a)) for a in self.args)
        if self.args or self.kind == "function":
            arglist = st.pick(f"{site}:arglist-blank", ["(", " ("]) + args + ")"
        else:
            arglist = st.pick(f"{site}:empty-arglist", ["()", ""])
        h = " ".join(pre + [st.kw(self.kind), self.name]) + arglist
        if self.kind == "function" and self.result:
            h += " " + st.kw("result") + st.pick(f"{site}:result-blank", ["(", " ( "]) + self.result + ")"
        if self.bindc is not None:
            h += " " + st.kw("bind") + "(c" + (f', name="{self.bindc}"' if self.bindc else "") + ")"
        return h

    def lines(self, st, site):
        out = [self.header(st, site)]
        for i, a in enumerate(self.args):
            if not isinstance(a, str):
                out += ["  " + l for l in a.lines(st, f"{site}:arg{i}")]
        if self.kind == "function" and not self.rettype and self.result is not False:
            rv = self.resvar()
            if rv is not None:
                out += ["  " + l for l in rv.lines(st, f"{site}:result")]
        if self.kind == "function" and self.rettype:
            # the type stands in the prefix: further attributes of the result can only come from attribute statements
            rname = self.result or self.name
            for a in self.result_attrs:
                _, stmt, eff = ATTRS[a]
                sep = " :: " if "::" in st.pick(f"{site}:result-attr-stmt-form:{a}", ["a :: x", "a x"]) else " "
                out.append("  " + st.kw(stmt) + sep + st.ref(rname) + eff.get("shape", ""))
        for i, d in enumerate(self.decls):
            out += ["  " + l for l in d.lines(st, f"{site}:local{i}")]
        n_enum = 0
        for i, it in enumerate(self.items):
            if isinstance(it, Enum):
                it.index = n_enum
                n_enum += 1
            out += ["  " + l for l in it.spec(st, f"{site}:item{i}")]
        out += ["  " + b for b in self.body]
        inner = []
        for i, p in enumerate(self.internal):
            inner += ["  " + l for l in p.lines(st, f"{site}:internal{i}")]
        for i, it in enumerate(self.items):
            inner += ["  " + l for l in it.contains(st, f"{site}:item{i}")]
        if inner:
            out += [st.kw("contains")] + inner
        out.append(st.end(self.kind, self.name))
        return out

    _resvar = None

    def resvar(self):
        """explicit declaration of the result variable in the body (when no type in the prefix)."""
        if self._resvar is None and self.kind == "function" and not self.rettype:
            self._resvar = Var(self.result or self.name, "real", list(self.result_attrs), role="result")
        return self._resvar

    def spec(self, st, site):
        return []

    def contains(self, st, site):
        return self.lines(st, site)

    def records(self, path):
        me = dict(path="/".join(path), kind="proc", name=self.name.lower(), role=self.role,
                  proctype=self.kind, args=[self.argname(a).lower() for a in self.args],
                  attribs=sorted(p for p in self.prefixes), bindc=None,
                  result=(self.result or self.name).lower() if self.kind == "function" else None)
        if self.bindc is not None:
            me["bindc"] = nb("c" + (f', name="{self.bindc}"' if self.bindc else ""))
        out = [me]
        sub = path + (f"proc:{self.name.lower()}",)
        for a in self.args:
            if isinstance(a, str):
                out.append(dict(path="/".join(sub), kind="variable", name=a.lower(), role="arg", attribs=[], shape="",
                                vartype="integer" if a[0].lower() in "ijklmn" else "real"))
            else:
                a.role = "arg"
                out += a.records(sub)
        if self.kind == "function":
            if self.rettype:
                exp = TYPE_SPEC[self.rettype][2]
                out.append(dict(path="/".join(sub), kind="variable", name=(self.result or self.name).lower(), role="result",
                                vartype=exp["vartype"], varkind=exp.get("varkind"), strlen=exp.get("strlen"), proto=exp.get("proto"),
                                attribs=sorted(ATTRS[a][2]["attr"] for a in self.result_attrs if "attr" in ATTRS[a][2]),
                                shape=next((ATTRS[a][2]["shape"] for a in self.result_attrs if "shape" in ATTRS[a][2]), "")))
            else:
                out += self.resvar().records(sub)
        for d in self.decls:
            out += d.records(sub)
        for it in self.items:
            out += it.records(sub)
        for p in self.internal:
            out += p.records(sub)
        return out


class Interface(Item):
    """kind in generic | operator | assignment | abstract | explicit"""

    def __init__(self, kind, name=None, bodies=(), modprocs=(), impls=()):
        self.kind, self.name, self.bodies, self.modprocs = kind, name, list(bodies), list(modprocs)
        self.impls = list(impls)  # Proc objects implementing the module procedures (go to CONTAINS)

    def spec(self, st, site):
        if self.kind == "abstract":
            out = [st.kw("abstract interface")]
        elif self.kind == "explicit":
            out = [st.kw("interface")]
        else:
            nm = self.name
            if "(" in nm:
                nm = nm.replace("(", st.pick(f"{site}:generic-spec-blank", ["(", " ("]), 1)
            out = [st.kw("interface") + " " + nm]
        for i, b in enumerate(self.bodies):
            out += ["  " + l for l in b.lines(st, f"{site}:body{i}")]
        if self.modprocs:
            kwd = st.pick(f"{site}:module-procedure-keyword", ["module procedure", "procedure", "module procedure ::"])
            one = st.pick(f"{site}:modprocs-one-line", ["one", "many"]) if len(self.modprocs) > 1 else "one"
            k = st.kw(kwd.replace(" ::", "")) + (" ::" if "::" in kwd else "")
            if one == "one":
                out.append(f"  {k} " + ", ".join(st.ref(m) for m in self.modprocs))
            else:
                out += [f"  {k} {st.ref(m)}" for m in self.modprocs]
        endname = self.name if self.kind in ("generic", "operator", "assignment") else None
        form = st.pick(f"{site}:end-interface", ["end interface", "end interface name", "endinterface"])
        if form == "end interface name" and endname:
            out.append(st.kw("end interface") + " " + (st.ref(endname) if self.kind == "generic" else endname))
        elif form == "endinterface":
            out.append(st.kw("endinterface"))
        else:
            out.append(st.kw("end interface"))
        return out

    def contains(self, st, site):
        out = []
        for i, p in enumerate(self.impls):
            out += p.lines(st, f"{site}:impl{i}")
        return out

    def records(self, path):
        out = []
        if self.kind in ("generic", "operator", "assignment"):
            out.append(dict(path="/".join(path), kind="interface", name=self.name.lower(), generic=True,
                            modprocs=[m.lower() for m in self.modprocs], bodies=sorted(b.name.lower() for b in self.bodies)))
            sub = path + (f"interface:{self.name.lower()}",)
            for b in self.bodies:
                b.role = "interface-body"
                out += b.records(sub)
        else:
            k = "absinterface" if self.kind == "abstract" else "interface"
            for b in self.bodies:
                out.append(dict(path="/".join(path), kind=k, name=b.name.lower(), generic=False))
                b.role = "interface-body"
                out += b.records(path + (f"{k}:{b.name.lower()}",))
        for p in self.impls:
            p.role = "proc"
            out += p.records(path)
        return out


class Enum(Item):
    def __init__(self, enumerators):
        self.enumerators = list(enumerators)  # (name, value or None)
        self.index = 0

    def spec(self, st, site):
        out = [st.kw("enum") + st.pick(f"{site}:enum-blanks", [", ", ","]) + st.kw("bind") + "(c)"]
        one = st.pick(f"{site}:enumerators-one-line", ["many", "one"])
        dc = st.pick(f"{site}:enumerator-double-colon", [" :: ", " "]) if all(v is None for _, v in self.enumerators) else " :: "
        ents = [n + (f" = {v}" if v is not None else "") for n, v in self.enumerators]
        if one == "one":
            out.append("  " + st.kw("enumerator") + dc + ", ".join(ents))
        else:
            out += ["  " + st.kw("enumerator") + dc + e for e in ents]
        out.append(st.end("enum", None))
        return out

    def records(self, path):
        out = [dict(path="/".join(path), kind="enum", name=f"#{self.index}")]
        sub = path + (f"enum:#{self.index}",)
        val, prev = -1, ""
        for n, v in self.enumerators:
            if v is None:
                # one more than the previous enumerator; when that one is given by an expression the value is not known as a number
                shown = str(val + 1) if val is not None else f"{prev}+1"  # (blanks are not compared)
                val = val + 1 if val is not None else None
            else:
                shown = v.replace(" ", "")  # a literal (possibly with a kind suffix) or a constant expression: as written
                m = re.fullmatch(r"(\d+)(_\w+)?", shown)
                val = int(m.group(1)) if m else None
            prev = n.lower()
            out.append(dict(path="/".join(sub), kind="enumerator", name=n.lower(), initial=shown))
        return out


class Common(Item):
    def __init__(self, name, vars):
        self.name, self.vars = name, list(vars)  # vars: list of Var (declared in the same scope)

    def spec(self, st, site):
        out = []
        order = st.pick(f"{site}:common-position", ["after-decls", "before-decls"])
        decls = []
        for i, v in enumerate(self.vars):
            decls += v.lines(st, f"{site}:cvar{i}")
        blk = st.pick(f"{site}:common-blanks", ["/n/ ", " /n/ ", "/ n / "]).replace("n", self.name)
        c = st.kw("common") + (" " if not blk.startswith(" ") else "") + blk + ", ".join(st.ref(n) for v in self.vars for n in v.names)
        return decls + [c] if order == "after-decls" else [c] + decls

    def records(self, path):
        out = []
        names = []
        for v in self.vars:
            for r in v.records(path, in_common=self.name.lower()):
                out.append(r)
                names.append([r["name"], r["vartype"]])
        out.append(dict(path="/".join(path), kind="common", name=self.name.lower(), vars=names))
        return out


class Namelist2(Item):
    """one NAMELIST statement declaring two groups: namelist /a/ x, y /b/ z"""

    def __init__(self, name1, vars1, name2, vars2):
        self.g = [(name1, list(vars1)), (name2, list(vars2))]

    def spec(self, st, site):
        decls = []
        for gi, (_, vs) in enumerate(self.g):
            for i, v in enumerate(vs):
                decls += v.lines(st, f"{site}:n{gi}var{i}")
        comma = st.pick(f"{site}:namelist-comma-between-groups", [" ", ", "])
        parts = [f"/{name}/ " + ", ".join(st.ref(n) for v in vs for n in v.names) for name, vs in self.g]
        return decls + [st.kw("namelist") + " " + comma.join(parts)]

    def records(self, path):
        out = []
        for name, vs in self.g:
            for v in vs:
                out += v.records(path)
            out.append(dict(path="/".join(path), kind="namelist", name=name.lower(), vars=[n.lower() for v in vs for n in v.names]))
        return out


class Namelist(Item):
    def __init__(self, name, vars):
        self.name, self.vars = name, list(vars)

    def spec(self, st, site):
        decls = []
        for i, v in enumerate(self.vars):
            decls += v.lines(st, f"{site}:nvar{i}")
        blk = st.pick(f"{site}:namelist-blanks", ["/n/ ", " /n/ ", " / n / "]).replace("n", self.name)
        nl = st.kw("namelist") + (" " if not blk.startswith(" ") else "") + blk + ", ".join(st.ref(n) for v in self.vars for n in v.names)
        return decls + [nl]

    def records(self, path):
        out = []
        for v in self.vars:
            out += v.records(path)
        out.append(dict(path="/".join(path), kind="namelist", name=self.name.lower(),
                        vars=[n.lower() for v in self.vars for n in v.names]))
        return out


# ---------------------------------------------------------------------------
# program units
# ---------------------------------------------------------------------------


class Unit:
    """kind in module | program | submodule | blockdata"""

    def __init__(self, kind, name, items=(), procs=(), uses=(), ancestor=None, parent_submodule=None, body=()):
        self.kind, self.name = kind, name
        self.items, self.procs, self.uses = list(items), list(procs), list(uses)
        self.ancestor, self.parent_submodule = ancestor, parent_submodule
        self.body = list(body)

    def lines(self, st, site=None):
        site = site or f"{self.kind}:{self.name}"
        if self.kind == "submodule":
            par = self.ancestor + (":" + self.parent_submodule if self.parent_submodule else "")
            head = st.kw("submodule") + st.pick(f"{site}:submodule-blanks", [" (p) ", "(p) ", " ( p ) "]).replace("p", par) + self.name
        elif self.kind == "blockdata":
            head = st.pick(f"{site}:blockdata-spelling", ["block data", "blockdata"])
            head = st.kw(head) + " " + self.name
        else:
            head = st.kw(self.kind) + " " + self.name
        out = [head]
        for u in self.uses:
            out.append("  " + st.kw("use") + " " + u)
        out.append("  " + st.kw("implicit none"))
        n_enum = 0
        for i, it in enumerate(self.items):
            if isinstance(it, Enum) or isinstance(getattr(it, "item", None), Enum):
                (it if isinstance(it, Enum) else it.item).index = n_enum
                n_enum += 1
            out += ["  " + l for l in it.spec(st, f"{site}:item{i}")]
        out += ["  " + b for b in self.body]
        inner = []
        for i, it in enumerate(self.items):
            inner += ["  " + l for l in it.contains(st, f"{site}:item{i}")]
        for i, p in enumerate(self.procs):
            inner += ["  " + l for l in p.lines(st, f"{site}:proc{i}")]
        if inner:
            out += [st.kw("contains")] + inner
        endkind = "block data" if self.kind == "blockdata" else self.kind
        out.append(st.end(endkind, self.name))
        return out

    def records(self, path):
        props = {}
        if self.kind == "submodule":
            props = dict(ancestor=self.ancestor.lower(), parent_submodule=self.parent_submodule.lower() if self.parent_submodule else None)
        out = [dict(path="/".join(path), kind=self.kind, name=self.name.lower(), **props)]
        sub = path + (f"{self.kind}:{self.name.lower()}",)
        for it in self.items:
            out += it.records(sub)
        for p in self.procs:
            p.role = "proc"
            out += p.records(sub)
        return out


class SourceFile:
    def __init__(self, name, units):
        self.name, self.units = name, list(units)

    def text(self, st):
        lines = []
        for u in self.units:
            if isinstance(u, Proc):
                lines += u.lines(st, f"ext:{u.name}")
            else:
                lines += u.lines(st)
        return "\n".join(lines) + "\n"

    def records(self):
        path = (f"file:{self.name}",)
        out = []
        for u in self.units:
            if isinstance(u, Proc):
                u.role = "proc"
            out += u.records(path)
        return out
