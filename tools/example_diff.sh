#!/bin/bash
# Regression guard for "fix:" commits: build FORD's bundled example project (preprocessing off, no pcpp here) with
# two revisions of /repo and diff the generated trees.   usage: tools/example_diff.sh <old-rev> [<new-rev>|WORKTREE]
# Scratch worktrees live under /var/tmp and are removed afterwards.
set -u
old=${1:?old revision}; new=${2:-WORKTREE}
base=/var/tmp/ford-verif-exdiff-$$
mkdir -p $base
build() { # <rev> <label>
  local rev=$1 lab=$2 wt=$base/wt-$2
  if [ "$rev" = WORKTREE ]; then
    mkdir -p $wt && (cd /repo && git ls-files -z | xargs -0 cp --parents -t $wt) 2>/dev/null
  else
    git -C /repo worktree add -q --detach $wt "$rev" || exit 2
  fi
  (cd $wt/example && PYTHONHASHSEED=0 PYTHONPATH=$wt /venv/bin/python -c "
import sys; sys.path.insert(0, '$wt')
import ford, pathlib
assert ford.__file__.startswith('$wt'), ford.__file__
sys.argv = ['ford', 'example-project-file.md', '--no-search', '-o', '$base/out-$lab', '--config', 'preprocess=false; parallel=0']
ford.run()
" > $base/log-$lab 2>&1) || { echo "build failed for $lab"; tail -5 $base/log-$lab; }
  if [ "$rev" != WORKTREE ]; then git -C /repo worktree remove --force $wt; else rm -rf $wt; fi
}
build "$old" old
build "$new" new
diff -r $base/out-old $base/out-new | grep -v "^Only in" > $base/diff.txt
diff -rq $base/out-old $base/out-new | grep "^Only in" >> $base/diff.txt
n=$(wc -l < $base/diff.txt)
echo "example output diff lines: $n"
head -${EXDIFF_LINES:-60} $base/diff.txt | cut -c1-300
rm -rf $base
