#!/bin/bash
# usage: tools/try_patch.sh <patch.diff> <tier> <Cxx> [Cxx...]
# Applies the patch to a scratch worktree of /repo's HEAD (outside /repo and /verif), runs the
# named checks against it via VERIF_REPO, prints VIOLATION/summary lines, removes the worktree.
set -u
patch=$(readlink -f "$1"); tier=$2; shift 2
wt=/var/tmp/ford-verif-try-$$
git -C /repo worktree add -q --detach "$wt" HEAD || exit 2
trap 'git -C /repo worktree remove --force "$wt" >/dev/null 2>&1' EXIT
if ! git -C "$wt" apply "$patch" 2>/dev/null; then
  (cd "$wt" && patch -p1 -s < "$patch") || { echo "PATCH-DOES-NOT-APPLY $patch"; exit 3; }
fi
rc=0
for c in "$@"; do
  out=$(cd /verif && VERIF_REPO="$wt" VERIF_NO_EVIDENCE=1 /venv/bin/python run_check.py "$c" --tier "$tier" 2>&1)
  r=$?
  echo "== $c exit=$r"
  echo "$out" | grep -E "^(VIOLATION|KNOWN-FINDING|\[C|HARNESS|Traceback)" | cut -c1-330 | head -8
  [ $r -ne 0 ] && rc=$r
done
exit $rc
