#!/usr/bin/env python3
"""usage: tools/record_fix.py <Cxx> <commit> <what failed>   -- append a `fixed:` line to known_findings.json"""
import json, sys
p = __file__.rsplit("/tools/", 1)[0] + "/known_findings.json"
d = json.load(open(p))
d["fixed"].append(f"fixed: property={sys.argv[1]} {sys.argv[2]} {sys.argv[3]}")
json.dump(d, open(p, "w"), indent=1, ensure_ascii=False)
open(p, "a").write("\n")
print(len(d["fixed"]), "fixed entries")
