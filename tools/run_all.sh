#!/bin/bash
# usage: tools/run_all.sh [tier] [seed]   - runs every registered check from a fresh process, validates evidence
tier=${1:-quick}; seed=${2:-0}
cd /verif
rc=0
for c in $(/venv/bin/python -c "import json;print(' '.join(x['property_id'] for x in json.load(open('MANIFEST.json'))['checks']))"); do
  rm -f evidence/$c.json
  s=$(date +%s.%N)
  out=$(VERIF_SEED=$seed /venv/bin/python run_check.py $c --tier $tier 2>&1); r=$?
  e=$(date +%s.%N)
  v=$(echo "$out" | grep -c "^VIOLATION")
  ok=$(python3-vt -c "import json,jsonschema,sys; jsonschema.validate(json.load(open('evidence/$c.json')), json.load(open('/root/.vp/EVIDENCE.schema.json'))); print('evidence-ok')" 2>&1 | tail -1)
  printf "%s exit=%s violations=%s %5.1fs %s | %s\n" $c $r $v $(echo "$e - $s" | bc) "$ok" "$(echo "$out" | tail -1 | cut -c1-150)"
  [ $r -ne 0 ] && rc=1
done
exit $rc
