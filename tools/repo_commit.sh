#!/bin/bash
# usage: tools/repo_commit.sh "<fix: message>"   - commits /repo's working tree only if the pinned baseline still gives 255 passed
# (1 failed + 32 errors are the pcpp-dependent tests, the same on the unchanged tree)
set -u
cd /repo || exit 2
res=$(/venv/bin/python -m pytest -ra -q -p no:cacheprovider --timeout=900 --continue-on-collection-errors 2>&1 | tail -1)
echo "$res"
ex=$(/verif/tools/example_diff.sh HEAD WORKTREE 2>&1 | head -1)
echo "$ex"
if [ "$ex" != "example output diff lines: 5" ] && [ "${ALLOW_EXDIFF:-0}" != 1 ]; then
  echo "NOT COMMITTED: the bundled example's output changes (look at tools/example_diff.sh HEAD WORKTREE; ALLOW_EXDIFF=1 to accept)"; exit 1
fi
if echo "$res" | grep -q "^1 failed, 255 passed"; then
  git commit -qam "$1" && git log --format=%h -1
else
  echo "NOT COMMITTED: baseline differs"; exit 1
fi
