#!/bin/bash
# usage: tools/repo_commit.sh "<fix: message>"   - commits /repo's working tree only if the pinned baseline still gives 255 passed
# (1 failed + 32 errors are the pcpp-dependent tests, the same on the unchanged tree)
set -u
cd /repo || exit 2
res=$(/venv/bin/python -m pytest -ra -q -p no:cacheprovider --timeout=900 --continue-on-collection-errors 2>&1 | tail -1)
echo "$res"
if echo "$res" | grep -q "^1 failed, 255 passed"; then
  git commit -qam "$1" && git log --format=%h -1
else
  echo "NOT COMMITTED: baseline differs"; exit 1
fi
