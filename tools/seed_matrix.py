#!/venv/bin/python
"""Run every stored seeded change against the check of its property (plus optional extra checks) and record in
seeded/<id>/meta.json which checks report a VIOLATION.  Each patch is applied to a scratch worktree of /repo HEAD
(outside /repo and /verif) that is removed afterwards.   usage: tools/seed_matrix.py [tier] [seed ids...]"""
import json, os, subprocess, sys, glob, shutil

VERIF = os.path.dirname(os.path.dirname(os.path.abspath(__file__)))
EXTRA = {"C02-B": ["C01", "C08"], "C08-A": ["C01"], "C12-A": [], "C05-A": ["C09"], "C09-B": ["C05"],
         # wave 3: changes in the reader / shared helpers are judged by the property that owns that mechanism as well
         "C01-E": ["C02"], "C01-F": ["C02"], "C08-E": ["C02"], "C18-E": ["C02"], "C03-F": ["C14"], "C13-F": ["C07", "C06"], "C07-F": ["C06"],
         "C10-E": ["C11"], "C07-E": ["C06"], "C09-D": ["C05"],
         "C04-G": ["C02"], "C13-H": ["C06"], "C18-H": ["C02"],
         # wave 4
         "C06-H": ["C16"], "C11-H": ["C16"], "C08-H": ["C14"],
         # wave 5
         "C08-I": ["C14"], "C08-J": ["C06", "C07"], "C01-I": ["C14"], "C01-J": ["C14", "C20"], "C04-I": ["C14"], "C03-J": ["C14"], "C18-I": ["C14"],
         "C07-J": ["C16"], "C11-J": ["C16", "C15"], "C15-J": ["C16"], "C13-J": ["C07", "C06"], "C20-J": ["C12"], "C11-I": ["C17"], "C16-J": ["C11", "C17"],
         "C12-J": ["C20"], "C02-J": ["C03"], "C05-J": ["C03"], "C17-J": ["C03"], "C10-I": ["C16"], "C18-J": ["C02"],
         # wave 6
         "C01-L": ["C14"], "C02-L": ["C18"], "C03-L": ["C01"], "C04-L": ["C02"], "C06-K": ["C07"], "C06-L": ["C16"], "C07-K": ["C06"], "C07-L": ["C16"],
         "C08-K": ["C02"], "C08-L": ["C14"], "C15-K": ["C12"], "C15-L": ["C12"], "C18-K": ["C02"], "C18-L": ["C01"], "C10-K": ["C16"],
         "C13-L": ["C07", "C08"], "C11-K": ["C17"], "C16-L": ["C06", "C07"], "C17-K": ["C19"], "C09-L": ["C11"], "C12-K": ["C16"],
         # wave 7
         "C02-N": ["C08"], "C04-N": ["C02"], "C20-M": ["C02"], "C13-N": ["C09"], "C15-N": ["C03"], "C19-M": ["C16"], "C16-N": ["C07", "C06"], "C05-N": ["C15"],
         "C17-N": ["C19"], "C12-N": ["C10"], "C20-N": ["C15"]}
tier = sys.argv[1] if len(sys.argv) > 1 else "quick"
ids = sys.argv[2:] or sorted(os.path.basename(d) for d in glob.glob(VERIF + "/seeded/C*"))
manifest = json.load(open(VERIF + "/MANIFEST.json"))
claimed = {c["property_id"] for c in manifest["checks"]}
for sid in ids:
    d = f"{VERIF}/seeded/{sid}"
    meta = json.load(open(d + "/meta.json"))
    checks = [c for c in [meta["property"]] + EXTRA.get(sid, []) if c in claimed]
    if not checks:
        print(sid, "no check built yet")
        continue
    wt = f"/var/tmp/ford-verif-matrix-{os.getpid()}"
    subprocess.run(["git", "-C", "/repo", "worktree", "add", "-q", "--detach", wt, "HEAD"], check=True)
    try:
        r = subprocess.run(["git", "-C", wt, "apply", d + "/patch.diff"], capture_output=True)
        if r.returncode != 0:  # context moved by later fixes: let patch(1) place the hunks
            r = subprocess.run(["patch", "-p1", "-s", "-d", wt, "-i", d + "/patch.diff"], capture_output=True)
        if r.returncode != 0:
            print(sid, "PATCH DOES NOT APPLY to HEAD")
            meta.setdefault("matrix", {})["applies_to_head"] = False
        else:
            res = {}
            for c in checks:
                env = dict(os.environ, VERIF_REPO=wt, VERIF_NO_EVIDENCE="1")
                p = subprocess.run(["/venv/bin/python", "run_check.py", c, "--tier", tier], cwd=VERIF, env=env, capture_output=True, text=True)
                viol = [l[:300] for l in p.stdout.splitlines() if l.startswith("VIOLATION")]
                res[c] = dict(exit=p.returncode, violations=len(viol), first=viol[:1])
                print(sid, c, "exit", p.returncode, "violations", len(viol))
            meta.setdefault("matrix", {})[tier] = res
            meta["detected_by"] = sorted({c for t in meta["matrix"].values() if isinstance(t, dict) for c, v in t.items() if isinstance(v, dict) and v.get("exit") == 1})
        json.dump(meta, open(d + "/meta.json", "w"), indent=1)
    finally:
        subprocess.run(["git", "-C", "/repo", "worktree", "remove", "--force", wt])
