#!/bin/bash
# usage: tools/confirm_seed.sh <Cxx> <A|B> <source dir containing patch.diff demo.py notes.md>
# Confirms in a scratch worktree of /repo HEAD: (1) demo passes without the patch, (2) patch applies,
# (3) the 255 baseline tests pass with it, (4) demo fails with it.  On success stores /verif/seeded/<Cxx>-<X>/.
set -u
id=$1; x=$2; src=$(readlink -f "$3")
wt=/var/tmp/ford-verif-seed-$$
git -C /repo worktree add -q --detach "$wt" HEAD || exit 2
trap 'git -C /repo worktree remove --force "$wt" >/dev/null 2>&1' EXIT
mkdir -p "$wt/_seeded/$x"; cp "$src"/demo*.py "$wt/_seeded/$x/" 2>/dev/null
demo=$(ls "$wt/_seeded/$x"/demo*.py | head -1); demo_rel=_seeded/$x/$(basename "$demo")
cd "$wt"
export PYTHONPATH="$wt" FORD_DEBUGGING=1
run_demo() { if [[ "$demo_rel" == *_test.py ]]; then timeout 600 /venv/bin/python -m pytest -q -p no:cacheprovider "$demo_rel" >/dev/null 2>&1; else timeout 600 /venv/bin/python "$demo_rel" >/dev/null 2>&1; fi; }
run_demo; clean_rc=$?
if ! git apply "$src/patch.diff" 2>/dev/null; then patch -p1 -s < "$src/patch.diff" || { echo "$id-$x: PATCH DOES NOT APPLY to HEAD"; exit 3; }; fi
tests=$(/venv/bin/python -m pytest -q -p no:cacheprovider --timeout=900 --continue-on-collection-errors 2>&1 | tail -1)
passed=$(echo "$tests" | grep -oE "[0-9]+ passed" | grep -oE "[0-9]+")
run_demo; patched_rc=$?
echo "$id-$x: demo_clean_rc=$clean_rc demo_patched_rc=$patched_rc tests_passed=$passed"
if [ "$clean_rc" = 0 ] && [ "$patched_rc" != 0 ] && [ "$passed" = 255 ]; then
  out=/verif/seeded/$id-$x; mkdir -p "$out"
  cp "$src/patch.diff" "$out/patch.diff"; cp "$demo" "$out/"; cp "$src/notes.md" "$out/notes.md" 2>/dev/null
  head=$(git -C /repo rev-parse --short HEAD)
  /venv/bin/python - "$id" "$x" "$out" "$head" "$clean_rc" "$patched_rc" "$passed" <<'PY'
import json,sys,re
id,x,out,head,c,p,t=sys.argv[1:]
notes=open(out+'/notes.md').read() if __import__('os').path.exists(out+'/notes.md') else ''
meta=dict(property=id, variant=x, breaks=id, source="independent sub-agent given only the property text and a scratch worktree",
  needs_to_manifest=notes[:1500], confirmed_at_repo_head=head,
  ran=dict(demo_on_clean_tree_exit=int(c), demo_with_patch_exit=int(p), baseline_tests_passed_with_patch=int(t),
           commands=["git apply patch.diff (scratch worktree of /repo HEAD)", "python -m pytest (pinned baseline command)", "python demo.py with PYTHONPATH=<worktree>"]),
  detected_by=[])
json.dump(meta, open(out+'/meta.json','w'), indent=1)
PY
  echo "$id-$x: STORED"
else
  echo "$id-$x: NOT CONFIRMED ($tests)"
fi
