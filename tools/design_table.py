#!/usr/bin/env python3
"""Regenerates the table of section 5 of DESIGN.md from the logs of tools/run_all.sh (quick / thorough).
usage: tools/design_table.py <quick log> <thorough log>   -> prints the Markdown table"""
import re, sys

E = {
 "C01": ("declaration atoms (20 type-spec classes (old-style selectors with blanks, a literal inside a kind) x attribute sets x entity-decl forms x 4 host scopes, two-literal declarations); all sequences of <=2/3 of 14 specification items x <=1/2 of 9 procedure shapes (incl. prefix-typed results with attribute statements beside implicit dummies) x 4 unit kinds; executable look-alikes incl. variables named like whole keywords; <=3 program units per file (block data, nested submodules both name orders); INCLUDE-is-transparent family (same-named include files in two directories, 5 spellings); each x every <=1/2 non-default spelling choices (keyword / identifier case, END forms incl. labelled, `::`, attribute as statement, kind spellings, blanks, byte-order mark)",
         "expected canonical tree computed from the abstract model; FORD must not fail"),
 "C02": ("(1) BFS over all sequences of <=4/5 physical lines from 37 shapes (incl. `!*` / `!\\|` blocks, indented `#` lines), exact product-state de-duplication; (2) all sequences of <=4/5 tokens over 27 tokens; (3) ordered pairs / triples of 16 literals in a declaration + PRINT + CALL, `lower` off/on, 9..23 literals in one statement; (4) 7x3 quote-rich documentation texts at 13 positions of a module",
         "reference free-form lexer; literal and documentation text verbatim; no spurious entity / call"),
 "C03": ("40 documentable statements: all-in-one-style x 4 marker sets (also with the specification part moved to an include file); every source-adjacent pair x 4x4 styles x inline / own-line x separators; singles; in-comment gaps; all sequences of <=3/4 of 19 doc-block kinds through the real MetaMarkdown; first-block family; 13 metadata keys x 16 entity kinds (summary also as rendered); rendered-pages family; comments of page-less procedures shown on other pages (6 entities x 3 display settings)",
         "tracer words: each entity's doc == its own words; visible text has every word once, in order; no foreign footnote"),
 "C04": ("default x position x attribute x access statement x position x 13 kinds (incl. constructor pair, enumerator, namelist group, interface bodies named by the statement, relational operators in both spellings) x identifier case / blanks in generic specs (singles); ordered pairs over a reduced value set; 5 contexts; type component / binding product; attribute lists; submodules (+ separate module procedures in 3 forms)",
         "reference accessibility rule"),
 "C05": ("display in 8 subsets (+none) x proc_internals x hide_undoc x <=1/2 metadata overrides over 5 sites (incl. keyword case, `protected` alone); 42 tracer-carrying entities in two source files (incl. inherited members across modules, namelist of a private procedure and of its internal procedure, local enumeration, common block); graphs as tables",
         "reference selection + presence / absence of tracers on all pages and in the search index, no link to unselected pages, links resolve"),
 "C06": ("topologies single / chain2 / chain3 / diamond / fan / double USE x default access x 11 USE forms per edge x 8 consumer scope kinds (incl. submodule, procedure of a submodule) x 8 entity kinds (incl. operator, constructor pair) x every file-order permutation; third-party module named first; project modules named like library modules; types extended through an imported local name (6 import forms x child name x 3 scopes)",
         "reference USE semantics: scope tables, export tables, resolved slots; identical for every permutation"),
 "C07": ("14 slot kinds (incl. cross-kind procedure pointers, deferred binding names, generic named like its specific) x referencing scope x every subset (quick: <=3) of declaration placements x 3 case variants x sibling order x 8 USE forms x direct / re-export; submodule chains depth 1-2 (+ same-named submodule of another module) x every file order; interface bodies with own USE (5 block kinds x 3 slots x 8 forms x re-export); generic bindings along type-extension chains",
         "reference scoping resolver (a marker identifies the declaration found)"),
 "C08": ("55 statement forms x 18 expression atoms in either slot x 4 calling-unit kinds; nested expressions; every standard intrinsic (169 + 13); fixed form: 5 statements x every token boundary (and pairs) as continuation break x 9 kinds of lines in between x marks; thorough: both slots jointly + all ordered statement pairs",
         "call set from the abstract statement: extra / missing / duplicate / unresolved"),
 "C09": ("full product of 8 cardinalities (1 944 shapes) x incl_src on/off + 18 richer shapes x <=1/2 deviations over 15 option sites (graph modes, outdir placement, cwd, extra_files, front texts + footnotes, ...) + search on x page depth x graphs",
         "link resolver over every page and the search index; no absolute output path; moved tree re-checked (thorough)"),
 "C10": ("BFS over <=3/4 `get_name` requests (16 names x 8 classes x 2 entities), exact-state de-dup; every single / pair (triples) of 26 name-relation fragments x 2 file orders (incl. saved graphs, `source: true` snippets, enumerators / dummy procedures)",
         "injectivity of entity -> (dir, case-folded stem); distinct output files / graph files, distinct anchors, anchors exist, tracer at URL, Read-more target, src copy identity, own source text"),
 "C11": ("91 reference spellings x 18 contexts (entity kinds, project file, project summary / author description, pages at 3 depths) x 2 layouts x option sets; every occurrence on every page",
         "reference resolver (documented lookup order); href resolved from each page; absent / hidden targets stay text"),
 "C12": ("4 multi-file projects (one using two external libraries with equal names) x option sets x (all file-order permutations + every <=1/2 deviating set-iteration / directory-listing events) + stale-output histories x output directory placement (also a project path / an output directory name with glob characters) + real-process runs under 3/8 hash seeds x parallel x graph_dir",
         "byte equality of all files and DOT sources with the default schedule"),
 "C13": ("all USE DAGs on 3 modules x submodule chains x users (+ own `omp_lib`); extension forests x composition subsets; all 512 call digraphs (+program / generic / driver without USE / internal functions only) x maxdepth x maxnodes x show_proc_parent; `graph: false`; per-entity limits; type-bound calls; file graphs: all dependency sets over 4 files (+program), equal file names in two directories",
         "DOT node / edge sets == reference relation / reference hop expansion (forward and inverse); rendering rule; no dangling edge"),
 "C14": ("all sequences of <=3/4 of 41 fixed-form line classes (limit on/off, last line without terminator); model programs x {plain, comment styles, seq. field, inline doc, labels, every single break position, pairs, 3 extensions, preprocessed (also with a sequence field)}; INCLUDE (limit on/off)",
         "reference fixed-form lexer; free / fixed tree equality incl. docs and calls"),
 "C15": ("every settings field x value classes x 6 formats (md, toml, --config, md beside a foreign fpm.toml x2, md with BOM) x 3 cwds for paths; keyword case / gaps / quoted URLs; all pairs (thorough); 17 CLI flags x 4 layerings (+ derived exclude_dir); file-selection options x cwds (sources inside and beside the project directory); unknown keys; ill-typed values",
         "cross-format equality + typed reference value; precedence; messages"),
 "C16": ("histories build A / rebuild A / damage modules.json / build B (twice, rebuild between, two names, other cwds): 6 option sets of A x 4 external forms x reference styles; library of 8 modules (same names twice, renamed re-exports, interface-body namesake, undocumented entities); B binds and extends the library's entities, hide_undoc; clashes; 18 damages + truncation at structural boundaries; two libraries with equal names x forms x order x B's own project_url; chain of three projects",
         "export exactness; external links resolve in A and lead to the module that is used; local wins; B never aborts"),
 "C17": ("all directory trees with <=3/4 entries over 9 kinds (+5 over 4 kinds) x ordering (6 modes) x copy_subdir modes (6); project_url as URL; Latin-1 project; byte-order marks",
         "reference mirror (pages, copies, navigation order) + link resolver from every depth; fragments kept; text intact"),
 "C18": ("all sequences of <=2/3 of 19 HTML / Markdown-significant pieces x 12 declaration sites; relational, bound / kind expressions x 6 sites; array-spec / length suffixes x 3 sites; procedure prefixes, typed function prefixes, BIND before RESULT; `lower` option",
         "row text verbatim; DOM shape equals the neutral literal's"),
 "C19": ("18 placements x 16 option sets fault-free (symlinks in copied directories and in old output, a real preprocessor with shell characters in macros, sub-pages / copy_subdir outside the page directory, force); OSError at EVERY k-th mutating FS event for 7 / ~60 combinations (audit hook; link-following events judged by target)",
         "all events inside output / graph dir; outside snapshot (content, mode, mtime) unchanged; refusal first"),
 "C20": ("truncation at every statement, each END deleted, CONTAINS variants, all splices, 53 malformed inputs (incl. self-referential entities, files including themselves, console markup) x 4 positions; same-name broken copies; include stratum; shared damaged include x includers; FORD's whole run (also unreadable extra-filetype files); rerun history",
         "differential vs. run without the file; CPU watchdog; rejected file named, nothing leaked, later stages complete, no stale pages"),
}
LINE = re.compile(r"^(C\d\d) exit=(\d) violations=(\d+)\s+([\d.]+)s .*?evaluations=(\d+) states=(\d+) transitions=(\d+) distinct_nontrivial=(\d+)")

def parse(path):
    out = {}
    for l in open(path):
        m = LINE.match(l)
        if m:
            out[m.group(1)] = dict(exit=int(m.group(2)), wall=float(m.group(4)), ev=int(m.group(5)), states=int(m.group(6)), trans=int(m.group(7)))
    return out

def fmt(n):
    return f"{n/1e6:.1f} M" if n >= 1e6 else (f"{n:,}".replace(",", " "))

q, t = parse(sys.argv[1]), parse(sys.argv[2])
print("| id | E (explored space) | O | quick | thorough |")
print("|----|--------------------|---|-------|----------|")
for cid in sorted(E):
    e, o = E[cid]
    # (C11 builds a handful of projects and judges every link instance on every page: the transitions)
    k, unit = ("trans", " link instances") if cid == "C11" else ("ev", "")
    qs = f"{fmt(q[cid][k])}{unit} / {q[cid]['wall']:.0f} s" if cid in q else "-"
    ts = f"{fmt(t[cid][k])}{unit} / {t[cid]['wall']:.0f} s" if cid in t else "-"
    print(f"| {cid} | {e} | {o} | {qs} | {ts} |")
print()
print(f"Sum of wall times: quick {sum(v['wall'] for v in q.values()):.0f} s, thorough {sum(v['wall'] for v in t.values()):.0f} s.")
