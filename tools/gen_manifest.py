#!/venv/bin/python
"""Regenerates MANIFEST.json from the table below (kept in one place so the manifest is always valid)."""
import json, sys, os
HERE = os.path.dirname(os.path.dirname(os.path.abspath(__file__)))
PY = "/venv/bin/python"

CHECKS = {}
NA = {}

def check(pid, category, text, note, technique, design):
    CHECKS[pid] = dict(
        property_id=pid,
        quick_cmd=f"{PY} run_check.py {pid} --tier quick",
        thorough_cmd=f"{PY} run_check.py {pid} --tier thorough",
        evidence_file=f"/verif/evidence/{pid}.json",
        replay_cmd_template=f"{PY} run_check.py {pid} --replay {{path}}",
        engine="mc",
        level_claimed=dict(category=category, text=text, design_ref=design),
        level_note=note,
        technique=technique,
    )

check("C01", "model_checking",
      "Bounded-exhaustive exploration of programs built from an abstract Fortran model (declaration atoms per host scope; all sequences of "
      "specification items x procedures x unit kind; executable look-alikes) crossed with every combination of <= d non-default spelling choices "
      "of the renderer (d=1 quick, 2 thorough). The expected entity tree is computed from the abstract model, never from text; the real ford "
      "Project (parse + correlate) must report exactly that tree and must not fail.",
      "Trusted: the abstract model/renderer (mc/fmodel.py), the canonicaliser (mc/canon.py), the legality filter for generated declarations. Bounds: <=3 items, <=2 procedures, <=2 spelling deviations.",
      "deviation-bounded exhaustive exploration (choice-trace DFS) against a reference model", "DESIGN.md 5/C01")

check("C02", "model_checking",
      "Explicit-state exploration of the product machine (real FortranReader x independent reference free-form lexer) "
      "over all physical-line sequences up to a bound with exact-state de-duplication, plus the full product of token "
      "sequences up to a bound; every execution runs the real reader. Bounded-exhaustive: all layouts up to the bound, not all layouts.",
      "Trusted: the reference lexer in mc/reflex.py (written from the standard's free-form rules); inputs the reference marks ill-formed are not judged; "
      "state de-duplication merges only states equal in every reader field/local and reference field (ids renamed).",
      "explicit-state BFS of implementation x reference-model product; bounded-exhaustive token product", "DESIGN.md 5/C02")

check("C04", "model_checking",
      "Complete enumeration of the accessibility product the property quantifies over (scope default x its position x declaration attribute x access "
      "statement x its position x entity kind x identifier case; singles, all ordered pairs over a reduced value set, embedding contexts, the "
      "component/binding product of derived types, submodules), each case parsed and correlated by the real ford package and compared with a direct "
      "implementation of the standard's rule. Exhaustive over that finite space.",
      "Trusted: the 10-line reference rule in checks/c04.py and the source renderer; illegal Fortran combinations are not generated; two genuine defects are listed in known_findings.json and matched by exact feature values.",
      "bounded-exhaustive enumeration of the configuration product against a reference rule", "DESIGN.md 5/C04")

check("C06", "model_checking",
      "Full product over module-graph topologies (single, chains of 2 and 3, diamond, fan, double USE) x default access of each module x 10 USE forms "
      "per edge x consumer scope kind (module level, module procedure, internal procedure, interface body, program, external procedure) x every "
      "permutation of the file order; the name tables, export tables and resolved reference slots produced by the real ford correlate() are compared "
      "with an independent implementation of the standard's USE-association rules evaluated on the abstract description.",
      "Trusted: the reference USE semantics in checks/c06.py; bounds: <= 3 library modules, one entity per kind and flavour. One genuine defect (same entity twice in one ONLY list) is a listed known finding.",
      "bounded-exhaustive enumeration incl. all file-order schedules, against a reference implementation", "DESIGN.md 5/C06")

check("C07", "model_checking",
      "For each of 10 reference-slot kinds x referencing scope (module, module procedure, internal procedure) x every subset of placements of a "
      "same-named declaration x letter-case variant x sibling order, plus submodule chains (depth 1 and 2) x every file order: the object stored in "
      "the slot by the real correlate() is identified by a marker and compared with a reference resolver implementing Fortran's scoping rules.",
      "Trusted: the reference resolver (innermost scope, then host chain with local-or-use-associated names per level) and the program skeleton in checks/c07.py. Quick tier bounds subsets to size <= 3; thorough enumerates all subsets.",
      "bounded-exhaustive enumeration of name-placement subsets against a reference scoping resolver", "DESIGN.md 5/C07")

check("C08", "model_checking",
      "Complete enumeration of executable parts generated from a statement grammar (39 statement forms) x expression alphabet (18 atoms, nested to depth 2 by 5 wrappers) "
      "x 4 kinds of calling unit (thorough: both expression slots jointly, and all ordered pairs of statement forms); the expected call set is derived from the abstract "
      "statement and compared (extra / missing / duplicated / unresolved) with unit.calls produced by the real parser and correlate().",
      "Trusted: the statement/expression tables in checks/c08.py and their declared call sets. Names equal to intrinsics/keywords are not generated. One genuine defect (computed GOTO inside IF) is a listed known finding.",
      "bounded-exhaustive enumeration of statement sequences against call sets from the abstract model", "DESIGN.md 5/C08")

check("C14", "model_checking",
      "(a) every sequence of <= L fixed-form physical lines over 27 line classes (continuation marks, comment styles, labels, short/blank lines, text beyond column 72 with the "
      "length limit on and off, inline comments/docs, cpp lines) run through the real convertToFree + FortranReader and compared with a reference fixed-form lexer; "
      "(b) model programs rendered in free and in fixed form with every single continuation break position between tokens (thorough: pairs), comment styles, labels, "
      "sequence fields and inline docs: the canonical entity trees incl. doc words and calls must be equal.",
      "Trusted: the column rules in checks/c14.py (fixed_to_ref_free) feeding the reference free-form lexer of C02; the token splitter that chooses break positions. Breaks inside tokens/literals are not generated.",
      "bounded-exhaustive line-sequence product against a reference lexer + free/fixed differential over all break positions", "DESIGN.md 5/C14")

check("C20", "fault_enumeration",
      "Every corruption of a fixed catalogue (truncation at every statement boundary, deletion of each END, duplicated/misplaced CONTAINS, stray END, every prefix+suffix "
      "splice of two sources, 40 malformed-construct inputs incl. undecodable bytes and unterminated literals, broken copies carrying the names of a valid file) placed "
      "first / between / last in the file order of a valid 3-file project; each run under a watchdog. Differential oracle against the run without the extra file: "
      "canonical tree, page identifiers and project lists of the other files unchanged, rejected file named in a diagnostic, none of its entities registered, run completes.",
      "Trusted: the differential oracle and canonicaliser; default settings (dbg). Genuine defects (correlate-stage errors abort the whole run) are listed known findings matched by error class.",
      "exhaustive fault enumeration (one corrupted file per execution, all positions) with differential oracle", "DESIGN.md 5/C20")

check("C03", "model_checking",
      "(a) a skeleton with 37 documentable statements of every entity kind, each with a unique tracer sentence: all entities in each of the four marker styles x 4 marker "
      "configurations, every source-adjacent pair x 4x4 styles x inline/own-line x separators (blank, ordinary comment, both) x marker configurations, every single entity "
      "documented alone; (b) all sequences of <= 4 documentation blocks (paragraphs, lists, code, all admonition kinds in every documented termination form) through the real "
      "MetaMarkdown with the visible text required to contain each tracer word once and in order; (c) metadata keys x entity kinds.",
      "Trusted: the skeleton/expected mapping in checks/c03.py; for multi-name statements the oracle accepts the comment on at least one declared name and nothing else; mid-line admonition start markers are not generated.",
      "bounded-exhaustive product (adjacent pairs x styles x separators x markers; block sequences) with tracer-word oracle", "DESIGN.md 5/C03")

check("C09", "model_checking",
      "Full product of the project cardinalities the templates branch on (files, modules, programs, procedures, types, abstract interfaces, block data, namelists; each with "
      "sources shown and hidden) plus 18 richer base shapes (submodules, generic interfaces, private specifics) x every option vector with <= 1 (thorough: <= 2 on a subset) "
      "deviations over 11 option sites (graph variants incl. table rendering, search, pages at depth 0-2, display, sort, ...). Each site is built by the real ford pipeline; "
      "a link resolver checks every URL of every page and of the search index (relative, existing file, existing id) and that no file embeds the absolute output path; thorough moves the tree and re-checks.",
      "Trusted: the link resolver (mc/site.py, html.parser based) and the project generator (mc/projgen.py). `dot` is stubbed: links inside real SVG are outside this check. Relative mode only (project_url empty).",
      "bounded-exhaustive enumeration of project shapes x deviation-bounded option vectors with a link-resolving oracle", "DESIGN.md 5/C09")

check("C10", "model_checking",
      "(a) explicit-state breadth-first search over all histories of <= 3 (thorough 4) get_name requests to the real NameSelector over 16 names x 8 (directory, kind) "
      "classes x 2 entities, de-duplicated on the selector's exact internal tables; invariants: entity -> (directory, case-folded stem) injective, stems stable. "
      "(b) every single / pair (thorough: triples) of 20 name-relation fragments x 2 file orders built to a complete site: page objects have distinct output files, "
      "distinct items on a page have distinct anchors, the page at each entity's URL carries its tracer, src/<name> is the defining file.",
      "Trusted: the fragment catalogue and oracles in checks/c10.py; output paths are compared case-insensitively. The flat src/ copy collision is a listed known finding.",
      "explicit-state BFS of the name selector + bounded-exhaustive project pairs with injectivity oracle", "DESIGN.md 5/C10")

check("C15", "model_checking",
      "Every field of the settings schema x value classes of its declared type (flags, numbers, strings incl. multi-line / ':' / '=', optionals, lists of 1-3 items, "
      "key/value tables with the legacy separators, extra file types) written in the three configuration formats and evaluated by the real ford.load_settings + "
      "ford.parse_arguments in-process: the three settings objects must be field-wise equal and equal a typed reference value; path options from three working directories; "
      "thorough adds every pair of options. Further: every command-line flag x {md, toml} x 4 precedence layerings (file < --config < flag), unknown keys and ill-typed values x 3 formats.",
      "Trusted: the reference values and format renderers in checks/c15.py. preprocess is pinned to false; wall-clock fields are not compared. Genuine defects (--config bypasses normalisation; TOML/--config values are not type-checked) are listed known findings.",
      "exhaustive enumeration of the configuration schema x formats with cross-format differential and reference oracle", "DESIGN.md 5/C15")

check("C13", "model_checking",
      "Abstract relation graphs are enumerated exhaustively (all USE DAGs on 3 modules x submodule chains x user configurations; extension forests x composition-edge "
      "subsets on 3 types; all 512 call digraphs with self-loops on 3 procedures, with program / generic-interface variants) x graph_maxdepth x graph_maxnodes x "
      "show_proc_parent, plus `graph: false` on each single entity. The DOT source of every graph object built by the real Documentation() is parsed and its node and "
      "edge sets compared with the reference (whole relation for project-wide graphs; reference hop expansion with the documented limits for per-entity graphs, forward and inverse); every edge must join declared nodes.",
      "Trusted: the reference BFS (hop added entirely or not at all) and relation extraction in checks/c13.py; `dot` is stubbed (DOT source is the observation). The graph:false node defect is a listed known finding.",
      "exhaustive enumeration of small relation graphs x limit settings against a reference graph construction", "DESIGN.md 5/C13")

check("C12", "model_checking",
      "Schedule exploration: the harness owns the two sources of run-to-run variation - the enumeration order of the source files and the iteration order of every set "
      "created inside ford and toposort (a chooser-driven set class is injected into those modules' globals). For each multi-file base project and option set it runs "
      "every permutation of the file order and every execution with <= d deviating set-iteration events (reverse / swap / rotate; d=1 quick, 2 thorough), plus stale-output "
      "histories; every written file and every DOT source must be byte-identical to the default schedule. Real `python -m ford` runs under several PYTHONHASHSEED values validate the model.",
      "Trusted: the set shim (mc/nd.py) models hash-order nondeterminism as permutations reachable by <= d reversals/swaps/rotations per run; set comprehensions exist only in find_all_files, which is wrapped; clock pinned; dot stubbed in-process.",
      "systematic schedule exploration (deviation-bounded) over owned nondeterminism with a byte-equality oracle", "DESIGN.md 5/C12")

check("C19", "fault_enumeration",
      "A sandbox tree (project, sources, pages, media, css, favicon, mathjax config, unrelated sibling directory, symlinks) x 11 placements of output_dir/graph_dir "
      "(sibling, nested new, elsewhere, ../, through a symlink, inside a source directory, stale output, equal to / parent of a source directory, source symlinked into the output) "
      "x 9 option sets that copy or write. The real front end (load_settings, parse_arguments, main) runs in-process under a sys.addaudithook hook that records every "
      "file-system-mutating operation and, for the fault runs, fails the k-th one with OSError for EVERY k = 1..N. Oracle: all mutating events inside the resolved output/graph "
      "directories; hash+mode snapshot of everything else unchanged after the run (failed or not); refusal before the first mutating event when a source directory lies in the output directory.",
      "Trusted: the audit-hook event classification and the snapshot in checks/c19.py; interpreter byte-code writes are excluded; inline graphs use a stubbed dot.",
      "exhaustive fault injection at every mutating file-system event (audit hook) + outside-tree snapshot oracle", "DESIGN.md 5/C19")

check("C17", "model_checking",
      "ALL directory trees with <= 3 (thorough 4, plus 5 over the shaping kinds) entries over 7 entry kinds (titled / untitled page, directory with / without index.md, "
      "other file, hidden file, backup), names assigned by position so every alphabetical interleaving occurs, x ordered_subpage {absent, reversed, partial, missing entry} x "
      "copy_subdir {absent, page-level, project-level, empty override}. Each tree is built to a site by the real pipeline; a reference mirror computed from the abstract tree "
      "gives the expected page set, copied files and order of every navigation list; every page carries relative, |page|, |url|, |media| and [[...]] links that the link resolver checks from every depth.",
      "Trusted: the reference mirror in checks/c17.py and the link resolver. A missing ordered_subpage entry is expected to abort with a message naming it.",
      "exhaustive enumeration of small directory trees against a reference mirror + link resolver", "DESIGN.md 5/C17")

check("C18", "model_checking",
      "All sequences of <= 2 (thorough 3) symbols over 18 HTML/Markdown-significant pieces are placed as character literals at 9 declaration sites whose text reaches a page "
      "(initial value of module variable / local / component / namelist member, bind name of procedure and variable, kind / len / dimension expression) plus relational-operator "
      "expressions; the site is built by the real pipeline, the page parsed, and for the row or heading of every declaration the oracle demands the source text verbatim and the "
      "same element structure as for the neutral literal 'x'.",
      "Trusted: the row locator / DOM shape comparison in checks/c18.py (html.parser). Four sites where FORD shows a placeholder or a truncated expression are listed known findings (text clause only; structure changes there are still reported).",
      "bounded-exhaustive enumeration of literal contents x display sites with verbatim-text and DOM-shape oracles", "DESIGN.md 5/C18")

check("C05", "model_checking",
      "A project with every entity kind in public / protected / private flavours and documented / undocumented twins (30 tracer-carrying entities incl. components, bindings, "
      "procedure internals, a separate module procedure in a submodule) is built for project display in all 8 subsets (+ none) x proc_internals x hide_undoc (full product), "
      "crossed with every combination of <= 1 (thorough 2) metadata overrides at file / module / type / procedure level. A reference selection function decides which entities "
      "are selected; on the generated site every selected entity's tracer must be present (and its page exist), no tracer of an unselected entity may appear on any page or in "
      "the search index, no href may target an unselected entity's page, and all links must resolve.",
      "Trusted: the reference selection rule (display inheritance as documented) and the tracer bookkeeping in checks/c05.py; incl_src off. Two genuine defects (file-level display not inherited; hide_undoc hides documented abstract interfaces) are listed known findings matched by feature.",
      "full product of display configurations x deviation-bounded metadata overrides with a presence/absence tracer oracle", "DESIGN.md 5/C05")

check("C11", "model_checking",
      "A catalogue of ~60 reference spellings (each target x no qualifier / every documented kind synonym for either part / child part / upper case / absent / hidden target, "
      "code span and fenced block) is placed in EVERY documentation context of a project that deliberately reuses names at several levels (doc of module, type, procedure, "
      "variable, component, program, submodule, source file; project file; static pages at depth 0-2), batched and one per paragraph. A reference resolver implementing the "
      "documented lookup order selects the expected entity; every occurrence on every generated page is resolved from that page and must reach the expected page/anchor; absent "
      "targets must be plain text with a warning; references that abort the run are isolated per (context, spelling).",
      "Trusted: the expected-target table in checks/c11.py (derived from the user guide's lookup rules); expected URLs are those FORD assigns to the expected entity. Three genuine defects are listed known findings keyed by spelling/context.",
      "exhaustive product of reference spellings x contexts x display pages against a reference resolver", "DESIGN.md 5/C11")

check("C16", "model_checking",
      "Histories [build A(opts1)] [rebuild A(opts2)] [damage modules.json] [build B] are enumerated: A's option sets x the external given as relative path / absolute path / "
      "http URL without and with trailing slash (urlopen stubbed to serve A's output) x [[...]] reference styles; rebuild pairs; a module-level name clash; modules.json absent, "
      "empty, not JSON, of 6 wrong shapes and truncated after structural characters (thorough: every one). Oracle: modules.json lists exactly A's modules with exactly their public "
      "entities and only URLs that exist in A's output; every link of B that leaves B's tree resolves to an existing page (and anchor) of A named after the entity; B's own entities win; a damaged description never aborts B.",
      "Trusted: the history driver and oracles in checks/c16.py; remote access is stubbed. 'Documents the entity' is approximated by file stem + anchor existence in A's output.",
      "exhaustive enumeration of build/damage histories with a cross-project link-resolving oracle", "DESIGN.md 5/C16")

ALL = [f"C{i:02d}" for i in range(1, 21)]
PENDING_REASON = "check not built yet in this round (planned: see DESIGN.md section 5); will be claimed once its exhaustive check exists"

def main():
    for pid in ALL:
        if pid not in CHECKS:
            NA[pid] = PENDING_REASON
    m = dict(
        version=1,
        setup_cmd=f"{PY} run_check.py selftest",
        hooks=dict(
            guard="none",
            enable="no source hooks: checks import the working tree at /repo (or $VERIF_REPO) and instrument it from the harness process only",
            baseline_off_cmd="cd /repo && /venv/bin/python -m pytest -ra -q -p no:cacheprovider --timeout=900 --continue-on-collection-errors",
            source_commits=[],
            add_only=True,
        ),
        engines=[dict(name="mc", path="/verif/mc", serves_properties=sorted(CHECKS),
                      kind_free_text="hand-written stateless / explicit-state explorer driving the real ford package in-process against Python reference models")],
        checks=[CHECKS[k] for k in sorted(CHECKS)],
        notes="See DESIGN.md. Fixes of genuine defects are unguarded 'fix:' commits in /repo, listed in known_findings.json.",
        not_applicable=[dict(property_id=k, reason=v) for k, v in sorted(NA.items())],
    )
    json.dump(m, open(os.path.join(HERE, "MANIFEST.json"), "w"), indent=1)
    import subprocess
    subprocess.run(["python3-vt", "-c", "import json,jsonschema,sys; jsonschema.validate(json.load(open(sys.argv[1])), json.load(open('/root/.vp/MANIFEST.schema.json')))",
                    os.path.join(HERE, "MANIFEST.json")], check=True)
    print("MANIFEST ok:", len(CHECKS), "checks,", len(NA), "not claimed")

if __name__ == "__main__":
    main()
