#!/venv/bin/python
"""Entry point: run_check.py <Cxx> [--tier quick|thorough] [--replay file]
Exit 0 = property held on everything explored (KNOWN-FINDING lines possible),
1 = VIOLATION line(s) printed, 2 = harness error (never a verdict)."""
import argparse
import importlib
import os
import sys
import traceback

HERE = os.path.dirname(os.path.abspath(__file__))
sys.path.insert(0, HERE)
os.environ.setdefault("PYTHONHASHSEED", "0")


def main():
    # nothing under test may wait for input: the standard input of the check (and of every process it starts) is empty
    devnull = os.open(os.devnull, os.O_RDONLY)
    os.dup2(devnull, 0)
    os.close(devnull)
    ap = argparse.ArgumentParser()
    ap.add_argument("prop")
    ap.add_argument("--tier", default=os.environ.get("VERIF_TIER", "quick"), choices=["quick", "thorough"])
    ap.add_argument("--replay", default=None)
    a = ap.parse_args()
    if a.prop == "--selftest":
        a.prop = "selftest"
    try:
        if a.prop == "selftest":
            mod = importlib.import_module("selftest.run")
            return mod.main()
        mod = importlib.import_module(f"checks.{a.prop.lower()}")
        return mod.main(a.tier, a.replay)
    except SystemExit:
        raise
    except BaseException:
        traceback.print_exc()
        print(f"HARNESS-ERROR property={a.prop}", file=sys.stderr)
        return 2


if __name__ == "__main__":
    sys.exit(main())
