"""C10 - distinct entities never share a page, anchor or copied file.

(a) NameSelector as a machine (explicit-state BFS): all sequences of <= D get_name
    requests over items {12 names incl. case variants, `~2` look-alikes, empty /
    unnamed, operator and assignment specs} x output directory {proc, interface,
    type, module, program, None}; states de-duplicated on the selector's exact
    internal tables; invariants: item -> (directory, stem) is injective, also
    after case folding; asking again returns the same stem.
(b) whole projects built from every pair (thorough: triple) of a catalogue of
    name relations (same name in two modules, differing only in case, module vs
    submodule vs external procedure, type + constructor interface, unnamed
    programs / block data, operator interfaces, equal namelists, equal file base
    names in two source directories ...): page objects have pairwise distinct
    output files, ids are unique per page, the page at each entity's URL carries
    that entity's tracer word, and src/<name> served for a file is that file.
"""
from __future__ import annotations

import itertools
import re
import os
from pathlib import Path
import time

from mc import core, fordrun
from mc.core import Stats
from mc.site import Site

PROP = "C10"

NAMES = ["foo", "Foo", "FOO", "foo_2", "", "<em>unnamed</em>", "operator(<)", "operator(.lt.)", "operator(/)", "operator(//)",
         "operator(*)", "assignment(=)", "operator(<=)", "operator(>)", "operator(==)", "operator(+)"]
DIRS = ["proc", "interface", "type", "module", "module", "program", None, None]
OBJS = ["proc", "interface", "type", "module", "submodule", "program", "variable", "boundprocedure"]


def selector_bfs(args):
    """BFS over histories of get_name requests.  An item is (name index, dir index, instance 0/1): two
    different entities may have the same name and directory."""
    first_items, depth = args
    import ford.sourceform as sf

    class Item(sf.FortranBase):
        def __init__(self, name, d, inst):  # noqa
            self.name = name
            self._d = DIRS[d]
            self.obj = OBJS[d]
            self.inst = inst

        def get_dir(self):
            return self._d

    st = Stats()
    alphabet = [(n, d, i) for n in range(len(NAMES)) for d in range(len(DIRS)) for i in (0, 1)]
    seen = set()
    frontier = [(it,) for it in first_items]
    level = 1
    while frontier and level <= depth:
        nxt = []
        for hist in frontier:
            sel = sf.NameSelector()
            objs = {}
            stems = {}
            ok = True
            for key in hist:
                o = objs.setdefault(key, Item(NAMES[key[0]], key[1], key[2]))
                s = sel.get_name(o)
                if key in stems and stems[key] != s:
                    ok = False
                    st.violation("unstable-name", "selector", dict(kind="unstable"), dict(history=[list(k) for k in hist], names=[NAMES[k[0]] for k in hist]),
                                 [stems[key], s], "the same stem every time")
                stems[key] = s
            st.evaluations += 1
            st.transitions += 1
            # injectivity
            by = {}
            for key, s in stems.items():
                by.setdefault((DIRS[key[1]], s.lower()), []).append(key)
            for (d, s), keys in by.items():
                if len(keys) > 1:
                    ok = False
                    names = sorted({NAMES[k[0]] for k in keys})
                    rel = "same-name" if len(names) == 1 else ("case-only" if len({n.lower() for n in names}) == 1 else "different-names")
                    st.violation("two-entities-one-stem", "selector", dict(kind=rel, names="|".join(names), dir=str(d)),
                                 dict(history=[list(k) for k in hist], names=[NAMES[k[0]] for k in hist], dirs=[DIRS[k[1]] for k in hist]),
                                 dict(dir=d, stem=s, entities=[[NAMES[k[0]], k[2]] for k in keys]), "distinct (directory, stem) per entity")
            state = (tuple(sorted((k, v) for k, v in stems.items())), repr(sorted((str(a), sorted(b.items())) for a, b in sel._counts.items())))
            if not ok:
                continue
            if state in seen:
                st.extra["pruned"] = st.extra.get("pruned", 0) + 1
                continue
            seen.add(state)
            if level < depth:
                for it in alphabet:
                    # canonical instance order: instance 1 of an item only after instance 0
                    if it[2] == 1 and (it[0], it[1], 0) not in hist:
                        continue
                    nxt.append(hist + (it,))
        frontier = nxt
        level += 1
    st.states = {core.digest(s) for s in seen}
    st.nontrivial = set(st.states)
    if seen:
        st.sample(dict(selector_history_example=[[NAMES[0], DIRS[0]], [NAMES[1], DIRS[0]]]))
    return st


# ---------------------------------------------------------------------------
# (b) projects
# ---------------------------------------------------------------------------
def frag(kind):
    """each fragment: {relative file: text}; every documented entity has a tracer word TR<kind><n>."""
    T = lambda n: f"TR{kind.replace('-', '')}{n}"  # noqa
    F = {}
    if kind == "modproc-a":
        F["src/a.f90"] = f"module ma\ncontains\nsubroutine dup()\n!! {T(1)}\nend subroutine dup\nend module ma\n"
    elif kind == "modproc-b":
        F["src/b.f90"] = f"module mb\ncontains\nsubroutine dup()\n!! {T(1)}\nend subroutine dup\nend module mb\n"
    elif kind == "modproc-case":
        F["src/c.f90"] = f"module mc\ncontains\nsubroutine Dup()\n!! {T(1)}\nend subroutine Dup\nfunction DUP2()\n!! {T(2)}\ninteger :: DUP2\nend function DUP2\nfunction dup2b()\n!! {T(3)}\ninteger :: dup2b\nend function dup2b\nend module mc\n"
    elif kind == "external":
        F["src/d.f90"] = f"subroutine dup()\n!! {T(1)}\nend subroutine dup\nsubroutine DUP2()\n!! {T(2)}\nend subroutine DUP2\n"
    elif kind == "type-ctor":
        F["src/e.f90"] = (f"module me\ntype dup\n!! {T(1)}\ninteger :: x\nend type dup\ninterface dup\n!! {T(2)}\nmodule procedure mkdup\nend interface dup\n"
                          f"contains\nfunction mkdup()\n!! {T(3)}\ntype(dup) :: mkdup\nend function mkdup\nend module me\n")
    elif kind == "type-case":
        F["src/f.f90"] = f"module mf\ntype Dup\n!! {T(1)}\ninteger :: x\nend type Dup\nend module mf\nmodule mf2\ntype DUP\n!! {T(2)}\ninteger :: y\nend type DUP\nend module mf2\n"
    elif kind == "module-named-dup":
        F["src/g.f90"] = f"module dup\n!! {T(1)}\ninterface\nmodule subroutine smp()\nend subroutine smp\nend interface\nend module dup\n"
    elif kind == "submodule-named-dup":
        F["src/h.f90"] = (f"module hostm\n!! {T(1)}\ninterface\nmodule subroutine hsmp()\nend subroutine hsmp\nend interface\nend module hostm\n"
                          f"submodule (hostm) dup\n!! {T(2)}\ncontains\nmodule subroutine hsmp()\nend subroutine hsmp\nend submodule dup\n")
    elif kind == "module-case":
        F["src/i.f90"] = f"module Dup\n!! {T(1)}\nend module Dup\n"
    elif kind == "program-named-dup":
        F["src/j.f90"] = f"program dup\n!! {T(1)}\nend program dup\n"
    elif kind == "unnamed-program":
        F["src/k.f90"] = f"program\n!! {T(1)}\ninteger :: kk\nend program\n"
    elif kind == "unnamed-blockdata":
        F["src/l.f90"] = f"block data\n!! {T(1)}\ninteger :: l1\ncommon /cl1/ l1\nend block data\nblock data\n!! {T(2)}\ninteger :: l2\ncommon /cl2/ l2\nend block data\n"
    elif kind == "operators":
        F["src/m.f90"] = ("module mo\ninterface operator(<)\n!! " + T(1) + "\nmodule procedure lt\nend interface\ninterface operator(<=)\n!! " + T(2) + "\nmodule procedure le\nend interface\n"
                          "interface operator(.lt.)\n!! " + T(3) + "\nmodule procedure lt2\nend interface\ninterface operator(/)\n!! " + T(4) + "\nmodule procedure dv\nend interface\n"
                          "interface operator(/=)\n!! " + T(5) + "\nmodule procedure ne\nend interface\ninterface operator(//)\n!! " + T(6) + "\nmodule procedure cc\nend interface\n"
                          "interface assignment(=)\n!! " + T(7) + "\nmodule procedure asg\nend interface\ninterface operator(==)\n!! " + T(8) + "\nmodule procedure eq\nend interface\n"
                          "interface operator(+)\n!! " + T(9) + "\nmodule procedure pl\nend interface\ncontains\n"
                          + "".join(f"logical function {n}(a,b)\ninteger, intent(in) :: a, b\n{n} = .true.\nend function {n}\n" for n in ("lt", "le", "lt2", "ne", "eq"))
                          + "".join(f"integer function {n}(a,b)\ninteger, intent(in) :: a, b\n{n} = 1\nend function {n}\n" for n in ("dv", "pl"))
                          + "character(2) function cc(a,b)\ncharacter, intent(in) :: a, b\ncc = a//b\nend function cc\n"
                          + "subroutine asg(a,b)\nlogical, intent(out) :: a\ninteger, intent(in) :: b\na = b > 0\nend subroutine asg\nend module mo\n")
    elif kind == "bound-operators":
        F["src/n.f90"] = ("module mn\ntype tn\n!! " + T(1) + "\ninteger :: v\ncontains\nprocedure :: lt\nprocedure :: le\nprocedure :: eq\nprocedure :: pl\n"
                          "generic :: operator(<) => lt\n!! " + T(2) + "\ngeneric :: operator(<=) => le\n!! " + T(3) + "\ngeneric :: operator(==) => eq\n!! " + T(4) + "\n"
                          "generic :: operator(+) => pl\n!! " + T(5) + "\nend type tn\ncontains\n"
                          + "".join(f"logical function {n}(a,b)\nclass(tn), intent(in) :: a, b\n{n} = .true.\nend function {n}\n" for n in ("lt", "le", "eq"))
                          + "type(tn) function pl(a,b)\nclass(tn), intent(in) :: a, b\npl%v = a%v + b%v\nend function pl\nend module mn\n")
    elif kind == "namelists":
        F["src/o.f90"] = (f"module mnl\ncontains\nsubroutine p1()\ninteger :: a\nnamelist /dup/ a\n!! {T(1)}\nend subroutine p1\n"
                          f"subroutine p2()\ninteger :: b\nnamelist /dup/ b\n!! {T(2)}\nend subroutine p2\nsubroutine p3()\ninteger :: c\nnamelist /Dup/ c\n!! {T(3)}\nend subroutine p3\nend module mnl\n")
    elif kind == "same-basename":
        F["src/same.f90"] = f"module samea\n!! {T(1)}\nend module samea\n"
        F["src/sub/same.f90"] = f"module sameb\n!! {T(2)}\nend module sameb\n"
    elif kind == "same-basename-case":
        F["src/Same.f90"] = f"module samec\n!! {T(1)}\nend module samec\n"
    elif kind == "variables":
        F["src/p.f90"] = (f"module mv\ninteger :: dup\n!! {T(1)}\ninteger :: Dupv\n!! {T(2)}\ncontains\nsubroutine sv(dup, dupv)\n!! {T(3)}\ninteger :: dup\n!! {T(4)}\nreal :: dupv\n!! {T(5)}\n"
                          f"integer :: loc\n!! {T(6)}\nend subroutine sv\nend module mv\n")
    elif kind == "tilde-name":
        # an entity whose generated stem equals the numbered stem of another
        F["src/q.f90"] = f"module mq\ncontains\nsubroutine dup_2()\n!! {T(1)}\nend subroutine dup_2\nend module mq\n"
    elif kind == "interface-proc":
        F["src/r.f90"] = f"module mr\ninterface\nsubroutine dup()\n!! {T(1)}\nend subroutine dup\nend interface\nabstract interface\nsubroutine dup2()\n!! {T(2)}\nend subroutine dup2\nend interface\nend module mr\n"
    elif kind == "generic-bodies":
        # generic / operator interfaces made of explicit interface bodies: each body is an item of the interface page
        F["src/s.f90"] = (f"module ms\ninterface dup\n!! {T(1)}\nsubroutine dup_s(a)\n!! {T(2)}\nreal :: a\nend subroutine dup_s\n"
                          f"subroutine dup_d(a)\n!! {T(3)}\ndouble precision :: a\nend subroutine dup_d\nfunction dup_f(a)\n!! {T(4)}\ninteger :: a, dup_f\nend function dup_f\n"
                          f"end interface dup\ninterface operator(.dupop.)\n!! {T(5)}\nfunction op_a(a, b)\n!! {T(6)}\ninteger, intent(in) :: a, b\ninteger :: op_a\nend function op_a\n"
                          f"function op_b(a, b)\n!! {T(7)}\nreal, intent(in) :: a, b\nreal :: op_b\nend function op_b\nend interface\nend module ms\n")
    elif kind == "inherited-generic":
        # a type extending a type of the project inherits generic bindings (named, operator) it does not override
        F["src/u.f90"] = ("module mu\ntype base_t\n!! " + T(1) + "\ninteger :: v\ncontains\nprocedure :: scaled_i\nprocedure :: plus\n"
                          "generic :: scaled => scaled_i\n!! " + T(2) + "\ngeneric :: operator(+) => plus\n!! " + T(3) + "\nend type base_t\n"
                          "type, extends(base_t) :: child_t\n!! " + T(4) + "\ninteger :: w\nend type child_t\n"
                          "type, extends(child_t) :: grandchild_t\n!! " + T(5) + "\ncontains\nprocedure :: scaled_i => scaled_g\nend type grandchild_t\ncontains\n"
                          "function scaled_i(a, f)\nclass(base_t), intent(in) :: a\ninteger, intent(in) :: f\ninteger :: scaled_i\nscaled_i = a%v * f\nend function scaled_i\n"
                          "function scaled_g(a, f)\nclass(grandchild_t), intent(in) :: a\ninteger, intent(in) :: f\ninteger :: scaled_g\nscaled_g = f\nend function scaled_g\n"
                          "function plus(a, b)\nclass(base_t), intent(in) :: a, b\ninteger :: plus\nplus = a%v + b%v\nend function plus\nend module mu\n")
    elif kind == "extra-files":
        # non-Fortran sources documented through extra_filetypes (see OPTIONS)
        F["src/t.f90"] = f"module mt\n!! {T(1)}\nend module mt\n"
        F["src/defaults.yml"] = f"# plain comment\n#! {T(2)}\nkey: value\n"
        F["src/limits.h"] = f"//! {T(3)}\n#define LIMIT 3\n"
        F["src/sub/defaults.yml"] = f"#! {T(4)}\nother: 1\n"
    elif kind == "enum-dummyproc":
        # items that live on another entity's page: enumerators, a dummy procedure declared by an interface block
        F["src/x.f90"] = (f"module mx\n!! {T(1)}\nenum, bind(c)\n!! {T(2)}\nenumerator :: dup = 1\n!! {T(3)}\nenumerator :: dup_b\n!! {T(4)}\nend enum\ncontains\n"
                          f"subroutine hostx(dupf, n)\n!! {T(5)}\ninterface\nfunction dupf(a)\n!! {T(6)}\ninteger :: a, dupf\nend function dupf\nend interface\ninteger :: n\n!! {T(7)}\n"
                          f"n = dupf(n)\nend subroutine hostx\nend module mx\n")
    elif kind == "source-shown":
        # `source: true` (see OPTIONS): two procedures of one name in one file, each shown with its own source text
        F["src/w.f90"] = (f"module mw1\n!! {T(1)}\ncontains\nsubroutine dupsrc()\n!! {T(2)}\nprint *, 'CODEOFMW1'\nend subroutine dupsrc\nend module mw1\n"
                          f"module mw2\n!! {T(3)}\ncontains\nsubroutine dupsrc()\n!! {T(4)}\nprint *, 'CODEOFMW2'\nend subroutine dupsrc\n"
                          f"function dupsrc2() result(r)\n!! {T(5)}\ninteger :: r\nr = len('CODEOFMW2F')\nend function dupsrc2\nend module mw2\n"
                          f"module mw3\n!! {T(6)}\ncontains\nfunction dupsrc2() result(r)\n!! {T(7)}\ninteger :: r\nr = len('CODEOFMW3F')\nend function dupsrc2\nend module mw3\n")
    elif kind == "saved-graphs":
        # graphs written to graph_dir (see OPTIONS): entities whose identifiers differ only in characters that are not letters or digits
        F["src/v.f90"] = (f"module sa\n!! {T(1)}\ncontains\nsubroutine step()\n!! {T(2)}\ncall helper()\nend subroutine step\nsubroutine helper()\n!! {T(3)}\nend subroutine helper\nend module sa\n"
                          f"module sb\n!! {T(4)}\nuse sa, only: helper\ncontains\nsubroutine step()\n!! {T(5)}\ncall helper()\nend subroutine step\nend module sb\n"
                          f"module sc\n!! {T(6)}\nuse sa, only: helper\ninterface operator(+)\n!! {T(7)}\nmodule procedure pl\nend interface\ninterface operator(-)\n!! {T(8)}\nmodule procedure mi\nend interface\n"
                          f"type base2\n!! {T(9)}\ninteger :: q\nend type base2\ntype, extends(base2) :: base_2\n!! {T(10)}\nend type base_2\ntype, extends(base2) :: base~2\nend type\n".replace("type, extends(base2) :: base~2\nend type\n", "")
                          + f"contains\nsubroutine step2()\n!! {T(11)}\ncall helper()\nend subroutine step2\ninteger function pl(a, b)\ninteger, intent(in) :: a, b\npl = a\ncall helper()\nend function pl\n"
                          f"integer function mi(a, b)\ninteger, intent(in) :: a, b\nmi = a\ncall helper()\nend function mi\nend module sc\n")
    else:
        raise KeyError(kind)
    return F


def two_paragraphs(files):
    """every tracer comment gets a second paragraph (word MORE_<tracer>), so that summaries carry a 'Read more' link"""
    import re

    out = {}
    for rel, text in files.items():
        if rel.endswith(".f90"):
            text = re.sub(r"(?m)^([ \t]*)!! (TR\w+\d)[ \t]*$", lambda m: f"{m.group(1)}!! {m.group(2)}\n{m.group(1)}!!\n{m.group(1)}!! MORE_{m.group(2)}", text)
        out[rel] = text
    return out


OPTIONS = {"source-shown": dict(source=True), "saved-graphs": dict(graph=True, graph_dir="graphs", parallel=0), "extra-files": dict(extra_filetypes=[dict(extension="yml", comment="#"), dict(extension="h", comment="//")])}


KINDS = ["modproc-a", "modproc-b", "modproc-case", "external", "type-ctor", "type-case", "module-named-dup", "submodule-named-dup",
         "module-case", "program-named-dup", "unnamed-program", "unnamed-blockdata", "operators", "bound-operators", "namelists",
         "same-basename", "same-basename-case", "variables", "tilde-name", "interface-proc", "generic-bodies", "extra-files", "inherited-generic", "saved-graphs", "source-shown", "enum-dummyproc"]
EXCLUSIVE = [{"program-named-dup", "unnamed-program"}, {"module-named-dup", "module-case"}]


def entity_pages(project):
    """(entity, tracer words in its doc) for every entity that has its own page."""
    import re

    out = []
    for coll in ("modules", "submodules", "programs", "procedures", "types", "absinterfaces", "blockdata", "namelists", "submodprocedures"):
        for e in getattr(project, coll, []):
            words = re.findall(r"\bTR\w+\d\b", " ".join(getattr(e, "doc_list", []) or []))
            out.append((coll, e, words))
    return out


def run_project(st: Stats, combo, order):
    files = {}
    for k in combo:
        files.update(frag(k))
    files = two_paragraphs(files)
    names = sorted(files)
    perm = names if order == 0 else list(reversed(names))
    fordrun.FILE_ORDER = lambda fl: sorted(fl, key=lambda p: perm.index(str(p)[str(p).index("src/"):]))
    try:
        extra = {}
        for k in combo:
            extra.update(OPTIONS.get(k, {}))
        r = fordrun.build(files, dict(display=["public", "private", "protected"], proc_internals=True, incl_src=True, **extra), stage="write")
    finally:
        fordrun.FILE_ORDER = None
    st.evaluations += 1
    st.transitions += 1
    stratum = "project/" + "+".join(combo)
    inp = dict(kinds=list(combo), order=order, files=files)
    feats = dict(kinds="+".join(combo), order=order)
    st.nontrivial.add(core.digest([combo, order]))
    try:
        if r.error is not None or r.stage_reached != "write":
            st.violation("ford-failed", stratum, feats, inp, (repr(r.error) + " " + r.log[-300:]).strip(), "site is written")
            st.stratum("project", 1)
            return
        bad = 0
        # 1. page objects -> distinct output files
        outfiles = {}
        for page in list(r.docs.docs) + list(r.docs.lists) + list(r.docs.pagetree):
            outfiles.setdefault(str(page.outfile).lower(), []).append(page)
        for f, pages in outfiles.items():
            if len(pages) > 1:
                bad += 1
                ents = [f"{type(p.obj).__name__}:{getattr(p.obj, 'name', '')}" for p in pages]
                names_ = sorted({getattr(p.obj, "name", "") for p in pages})
                rel = "same-name" if len(names_) == 1 else ("case-only" if len({n.lower() for n in names_}) == 1 else "different-names")
                st.violation("two-entities-one-page", stratum, dict(feats, relation=rel, dir=f.split("/")[-2], classes="|".join(sorted({type(p.obj).__name__ for p in pages}))),
                             inp, dict(file=f[len(str(r.out)) + 1:], entities=ents), "one output file per page object")
        site = Site(r.out)
        # 2. distinct items on one page never share an anchor id
        owners = {}
        anchor_owners = {}
        for sf_ in r.project.files:
            for item in getattr(sf_, "_to_be_markdowned", []):
                try:
                    url = item.get_url()
                except Exception:  # noqa
                    url = None
                try:
                    anchor_owners.setdefault(item.anchor, set()).add(id(item))
                except Exception:  # noqa
                    pass
                if url and "#" in url:
                    page, fr = url.split("#", 1)
                    owners.setdefault((page, fr), {})[id(item)] = item
        seen_cls = set()
        for (page, fr), items in owners.items():
            if len(items) > 1:
                cls = (page.split("/")[0], fr.split("-")[0])
                if cls in seen_cls:
                    continue
                seen_cls.add(cls)
                bad += 1
                st.violation("two-items-one-anchor", stratum, dict(feats, page_dir=cls[0], id_class=cls[1]), inp,
                             dict(page=page, id=fr, items=[f"{type(i).__name__}:{i.name}@{getattr(i.parent, 'name', None)}" for i in items.values()]),
                             "distinct items on one page have distinct anchors")
        for (page, i) in site.duplicate_ids():
            import urllib.parse
            if (page, i) in owners or (page, urllib.parse.quote(i)) in owners:
                continue  # already judged above
            if len(anchor_owners.get(i, anchor_owners.get(urllib.parse.quote(i), ()))) == 1:
                continue  # one and the same entity rendered twice on this page
            if i not in anchor_owners and urllib.parse.quote(i) not in anchor_owners and not any(
                    u.partition("#")[2] in (i, urllib.parse.quote(i)) and not u.partition("#")[0] for (_t, _a, u) in site.pages[page].links):
                continue  # not the anchor of any item and no link of the page points at it (e.g. the title inside the graph-key dialog): outside the property
            cls = (page.split("/")[0], i.split("-")[0])
            if cls in seen_cls:
                continue
            seen_cls.add(cls)
            bad += 1
            st.violation("duplicate-id-on-page", stratum, dict(feats, page_dir=cls[0], id_class=cls[1]), inp, dict(page=page, id=i), "ids unique per page")
        # 3. page at the entity's URL documents that entity
        for coll, e, words in entity_pages(r.project):
            url = e.get_url()
            if not url or not words:
                continue
            rel = url.split("#")[0]
            pg = site.pages.get(rel)
            if pg is None or not all(w in pg.text for w in words[:1]):
                bad += 1
                st.violation("page-at-url-documents-another-entity", stratum, dict(feats, coll=coll, name_lower=e.name.lower() == "dup"), inp,
                             dict(entity=f"{coll}:{e.name}", url=url, tracer=words[:1], found=bool(pg)), "the entity's tracer on the page at its URL")
        # 3a. an item that lives on another entity's page: that page exists and carries the item's anchor
        import urllib.parse as _up

        seen_missing = set()
        for (page, fr), items in owners.items():
            pg = site.pages.get(page)
            ids = set(pg.ids) if pg is not None else set()
            if pg is None or not ({fr, _up.unquote(fr)} & ids):
                cls = (page.split("/")[0], fr.split("-")[0])
                if cls in seen_missing:
                    continue
                seen_missing.add(cls)
                bad += 1
                it = next(iter(items.values()))
                st.violation("item-url-has-no-such-anchor", stratum, dict(feats, page_dir=cls[0], id_class=cls[1]), inp,
                             dict(page=page, id=fr, item=f"{type(it).__name__}:{it.name}@{getattr(it.parent, 'name', None)}", page_exists=pg is not None),
                             "the page at the item's URL contains the item's anchor")
        # 3c. every link between the generated pages reaches an existing file and anchor (the URL FORD prints for an item must be that item's)
        seen_lp = set()
        for (page, tag, attr, url, prob) in site.link_problems():
            cls = (page.split("/")[0], url.split("#")[-1].split("-")[0] if "#" in url else url.split("/")[-2] if "/" in url else url)
            if cls in seen_lp:
                continue
            seen_lp.add(cls)
            bad += 1
            st.violation("link-to-missing-page-or-anchor", stratum, dict(feats, page_dir=cls[0], id_class=cls[1]), inp, dict(page=page, url=url, problem=prob), "links resolve")
        # 3b. links baked into the documentation text ("Read more" behind a summary) lead to the page of that very entity
        import posixpath
        import re as _re

        for rel, pg in site.pages.items():
            for m in _re.finditer(r'<a href="([^"]+)"[^>]*>\s*<emph>Read more', pg.raw):
                before = pg.raw[max(0, m.start() - 400): m.start()]
                trs = _re.findall(r"\bTR\w+\d\b", before)
                if not trs:
                    continue
                tr = trs[-1]
                target = posixpath.normpath(posixpath.join(posixpath.dirname(rel), m.group(1).split("#")[0]))
                tp = site.pages.get(target)
                if tp is None or ("MORE_" + tr) not in tp.text:
                    bad += 1
                    st.violation("read-more-link-leads-to-another-entity", stratum, dict(feats, page_dir=rel.split("/")[0]), inp,
                                 dict(page=rel, href=m.group(1), summary_of=tr, target_exists=tp is not None), f"a page containing MORE_{tr}")
                    break
        # 4. copied sources
        by_name = {}
        for f in list(r.project.files) + list(r.project.extra_files):
            by_name.setdefault(f.name, []).append(f)
        for name, fl in by_name.items():
            copied = r.out / "src" / name
            for f in fl:
                if not copied.exists() or copied.read_text() != open(f.path).read():
                    bad += 1
                    st.violation("copied-source-is-another-file", stratum, dict(feats, n_same_basename=len(fl)), inp,
                                 dict(file=str(f.path)[str(f.path).index("src/"):], served="src/" + name), "src/<name> is byte-identical to the defining file")
        st.states.add(core.digest(sorted(site.files)))
        # 4b. source text shown on a procedure's page (`source: true`) is that procedure's
        if "source-shown" in combo:
            for pr in r.project.procedures:
                if pr.name.lower() in ("dupsrc", "dupsrc2") and pr.parent is not None and pr.parent.name.lower().startswith("mw"):
                    mark = "CODEOF" + pr.parent.name.upper() + ("F" if pr.name.lower() == "dupsrc2" else "")
                    pg = site.pages.get((pr.get_url() or "").split("#")[0])
                    others = [m_ for m_ in ("CODEOFMW1", "CODEOFMW2", "CODEOFMW2F", "CODEOFMW3F") if m_ != mark and pg is not None and re.search(rf"{m_}\b", pg.text)]
                    if pg is None or not re.search(rf"{mark}\b", pg.text) or others:
                        bad += 1
                        st.violation("page-at-url-documents-another-entity", stratum, dict(feats, coll="source-text", name_lower=False), inp,
                                     dict(entity=f"{pr.parent.name}:{pr.name}", url=pr.get_url(), own_source_shown=bool(pg and re.search(rf"{mark}\b", pg.text)), foreign_source=others),
                                     "the source text of this procedure")
        # 5. graphs saved to graph_dir: one pair of files per saved graph, each holding that graph
        if getattr(r.settings, "graph_dir", None) and r.docs.graphs is not None and getattr(r.docs.graphs, "save_graphs", False):
            gdir = Path(r.settings.graph_dir)
            g = r.docs.graphs
            saved = {}
            for coll, attrs in (("modules", ("usesgraph", "usedbygraph")), ("types", ("inhergraph", "inherbygraph")), ("procedures", ("callsgraph", "calledbygraph")),
                                ("programs", ("callsgraph", "usesgraph")), ("sourcefiles", ("afferentgraph", "efferentgraph")), ("blockdata", ("usesgraph",))):
                for e in getattr(g, coll):
                    for a in attrs:
                        gr = getattr(e, a, None)
                        if gr is not None and len(gr.added) > len(gr.root):
                            saved.setdefault(str(gr.imgfile).lower(), []).append((gr, e))
            present = {f.lower() for f in os.listdir(gdir)} if gdir.exists() else set()
            for stem, grs in saved.items():
                if len({id(x[0]) for x in grs}) > 1:
                    bad += 1
                    st.violation("two-graphs-one-file", stratum, dict(feats, graph=type(grs[0][0]).__name__), inp, dict(file=stem, entities=[f"{type(e).__name__}:{e.name}:{e.ident}" for _, e in grs]), "one file per saved graph")
                    continue
                gr, e = grs[0]
                gv = gdir / (str(gr.imgfile) + ".gv")
                txt = gv.read_text(errors="replace") if gv.exists() else ""
                if f"{stem}.svg" not in present or gr.ident not in txt.split("{")[0]:
                    bad += 1
                    st.violation("saved-graph-file-holds-another-graph", stratum, dict(feats, graph=type(gr).__name__), inp, dict(file=gv.name, head=txt[:80], entity=f"{e.name}:{e.ident}"), f"files of graph {gr.ident}")
            extra_files = sorted(present - {s_ + ext for s_ in saved for ext in (".gv", ".svg")})
            if extra_files:
                bad += 1
                st.violation("unexpected-file-in-graph-dir", stratum, feats, inp, extra_files[:5], "only the saved graphs")
        st.stratum("project", bad)
        if len(st.samples) < 2 and len(combo) == 2:
            st.sample(dict(kinds=list(combo), pages=sorted(p for p in site.pages if "/" in p and not p.startswith(("lists", "sourcefile")))))
    finally:
        r.cleanup()


def work(chunk):
    st = Stats()
    for combo, order in chunk:
        run_project(st, combo, order)
    return st


def gen_projects(tier):
    for k in KINDS:
        yield ((k,), 0)
    for a, b in itertools.combinations(KINDS, 2):
        if any({a, b} <= ex for ex in EXCLUSIVE):
            continue
        yield ((a, b), 0)
        yield ((a, b), 1)
    if tier == "thorough":
        core_kinds = ["modproc-a", "modproc-b", "modproc-case", "external", "type-ctor", "module-named-dup", "submodule-named-dup", "program-named-dup", "namelists", "tilde-name", "interface-proc"]
        for c in itertools.combinations(core_kinds, 3):
            yield (c, 0)
            yield (c, 1)


def replay(path):
    import json

    core.use_repo()
    rec = json.loads(open(path).read())
    if "history" in rec["input"]:
        print(rec["input"], rec["observed"])
        return 1
    st = Stats()
    run_project(st, tuple(rec["input"]["kinds"]), rec["input"]["order"])
    for v in st.violations:
        print("REPRODUCED", v["clause"], v["observed"])
    return 1 if st.violations else 0


def main(tier, replay_path=None):
    if replay_path:
        return replay(replay_path)
    t0 = time.time()
    core.use_repo()
    depth = 3 if tier == "quick" else 4
    total = Stats()
    firsts = [(n, d, 0) for n in range(len(NAMES)) for d in range(len(DIRS))]
    nsh = core.WORKERS * 2
    for st in core.pmap(selector_bfs, [(c, depth) for c in (firsts[i::nsh] for i in range(nsh)) if c]):
        total.merge(st)
    jobs = list(gen_projects(tier))
    k = core.SEED % 5
    jobs = jobs[k:] + jobs[:k]
    n = core.WORKERS * 4
    for st in core.pmap(work, [c for c in (jobs[i::n] for i in range(n)) if c]):
        total.merge(st)
    return core.finish(
        PROP, tier, "model_checking", total, t0,
        rule=(f"(a) explicit-state BFS over all histories of <= {depth} get_name requests over {len(NAMES)} names x {len(DIRS)} directories x 2 entities per (name, directory), "
              "de-duplicated on the selector's exact tables (states = distinct selector states); "
              f"(b) every single and every pair" + (" and triples of 11 core kinds" if tier == "thorough" else "") + f" of {len(KINDS)} name-relation fragments x 2 file orders, built to a site"),
        assumptions=["output files are compared case-insensitively (a site must be publishable from a case-insensitive file system)"],
        bounds=dict(selector_depth=depth, projects=len(jobs)),
    )
