"""C15 - options mean the same in every configuration format, with CLI precedence.

For EVERY field of the settings schema x value classes of its declared type
(flags, numbers, strings incl. `:`/`=`/blanks, optionals, lists of 0/1/2 items,
key/value tables incl. the legacy separators, extra file types) the option is
written as project-file metadata, as the [extra.ford] table of fpm.toml and as a
--config string; the three resulting ProjectSettings objects (real
ford.load_settings + ford.parse_arguments, in-process) must be field-wise equal
and equal the typed reference value.  Further strata: all pairs of options
(thorough), command-line flag vs file vs --config precedence for every option
that has a flag, three working directories (path fields are absolute and relative
to the project file), unknown keys (reported, no abort) and ill-typed values
(rejected with a message naming the option).
"""
from __future__ import annotations

import contextlib
import dataclasses
import io
import itertools
import json
import os
import shutil
import time
import typing
from pathlib import Path

from mc import core
from mc.core import Stats

PROP = "C15"


def toml_value(v):
    if isinstance(v, bool):
        return "true" if v else "false"
    if isinstance(v, int):
        return str(v)
    if isinstance(v, str):
        return json.dumps(v)
    if isinstance(v, list):
        return "[" + ", ".join(toml_value(x) for x in v) + "]"
    if isinstance(v, dict):
        return "{" + ", ".join(f"{json.dumps(k)} = {toml_value(x)}" for k, x in v.items()) + "}"
    raise TypeError(v)


MD_STYLE = dict(key=lambda k: k, gap=" ", quote="")  # how metadata is written: keyword letter case, blanks between the fields of one item


def md_lines(name, v, sep="="):
    out = _md_lines(name, v, sep)
    if out:
        k, rest = out[0].split(":", 1)
        out[0] = MD_STYLE["key"](k) + ":" + rest
    return out


def _md_lines(name, v, sep="="):
    if isinstance(v, bool):
        return [f"{name}: {'true' if v else 'false'}"]
    if isinstance(v, str) and "\n" in v:
        first, *rest = v.split("\n")
        return [f"{name}: {first}"] + [f"    {x}" for x in rest]
    if isinstance(v, (int, str)):
        return [f"{name}: {v}"]
    if isinstance(v, list):
        if name == "extra_filetypes":
            g = MD_STYLE["gap"]
            items = [f"{x['extension']}{g}{x['comment']}" + (f"{g}{x['lexer']}" if x.get("lexer") else "") for x in v]
        else:
            items = [str(x) for x in v]
        if not items:
            return [f"{name}:"]
        return [f"{name}: {items[0]}"] + [f"    {x}" for x in items[1:]]
    if isinstance(v, dict):
        q = MD_STYLE.get("quote", "") if sep == ":" else ""  # the user guide writes URLs of `name: url` tables in quotes
        items = [(f"{k}{sep} {q}{x}{q}" if sep == ":" else f"{k} {sep} {x}") for k, x in v.items()]
        if not items:
            return [f"{name}:"]
        return [f"{name}: {items[0]}"] + [f"    {x}" for x in items[1:]]
    raise TypeError(v)


def field_table():
    from ford.settings import OPTION_SEPARATORS, ProjectSettings

    hints = typing.get_type_hints(ProjectSettings)
    out = {}
    for f in dataclasses.fields(ProjectSettings):
        if not f.init or f.name in ("directory",):
            continue
        out[f.name] = hints[f.name]
    return out, OPTION_SEPARATORS


def type_class(tp):
    origin = typing.get_origin(tp)
    args = typing.get_args(tp)
    if tp is bool:
        return "bool"
    if tp is int:
        return "int"
    if tp is str:
        return "str"
    if tp is Path:
        return "path"
    if tp is list:
        return "list-str"
    if origin is typing.Union and type(None) in args:
        inner = [a for a in args if a is not type(None)][0]
        return type_class(inner)
    if origin is list:
        return "list-path" if args and args[0] is Path else "list-str"
    if origin is dict:
        return "filetypes" if args[1].__name__ == "ExtraFileType" else "dict"
    return "other"


def values_for(name, cls):
    if cls == "bool":
        return [True, False]
    if cls == "int":
        return [0, 1, 12345]
    if cls == "str":
        if name in ("docmark", "predocmark", "docmark_alt", "predocmark_alt"):
            return ["+", "%%", "~"] + ([""] if name != "docmark" else [])  # (an empty mark switches that comment style off)
        if name == "sort":
            return ["alpha", "permission-alpha", "type"]
        if name in ("license", "doc_license"):
            return ["by", "gfdl", "my own license"]
        if name == "encoding":
            return ["utf-8", "latin-1"]
        if name == "preprocessor":
            return ["cpp -P", "gfortran -E"]
        if name in ("summary", "author_description", "project", "author", "version"):
            return ["simple", "with: colon and = equals", "two  blanks inside", "first line\nNote: second line\nthird: line"]
        return ["simple", "with: colon and = equals", "two  blanks inside", "x"]
    if cls == "path":
        if name == "favicon":
            # the project's own icon may well be called like FORD's built-in default
            return ["rel/dir", "./x", "/abs/dir/x", "../up", "favicon.png", "./favicon.png"]
        return ["rel/dir", "./x", "/abs/dir/x", "../up"]
    if cls == "list-str":
        if name == "display":
            return [["public"], ["public", "private"], ["PRIVATE"]]
        if name in ("extensions", "fpp_extensions"):
            return [["f90"], ["f90", "F95"]]
        if name == "fixed_extensions":
            return [["f"], ["f", "f77"]]
        if name == "md_extensions":
            return [["markdown.extensions.toc"], ["markdown.extensions.toc", "markdown.extensions.smarty"]]
        return [["one"], ["one", "two words"], ["a", "b", "c"]]
    if cls == "list-path":
        return [["d1"], ["d1", "sub/d2"], ["/abs/d3", "d4"]]
    if cls == "dict":
        if name == "extra_mods":
            return [{"mymod": "http://example.com/m"}, {"m1": "http://a.example/x", "m2": "https://b.example/y?z=1"}]
        return [{"k": "v"}, {"k1": "v1", "k2": "v 2 with blanks"}, {"url2": "http://example.com/a=b"}]
    if cls == "filetypes":
        return [[{"extension": "cpp", "comment": "//"}], [{"extension": "sh", "comment": "#", "lexer": "bash"}, {"extension": "py", "comment": "#"}]]
    return []


def reference(name, cls, v, base):
    """typed value FORD should end up with (after normalise_paths etc.)."""
    from ford.utils import normalise_path

    if cls == "path":
        return str(normalise_path(base, v))
    if cls == "list-path":
        return [str(normalise_path(base, x)) for x in v]
    if cls == "filetypes":
        return {x["extension"]: dict(extension=x["extension"], comment=x["comment"], lexer=x.get("lexer")) for x in v}
    if name == "display":
        return [x.lower() for x in v]
    return v


CLI_FLAGS = {
    "src_dir": ("-d", "list"), "page_dir": ("-p", "one"), "output_dir": ("-o", "one"), "css": ("-s", "one"), "revision": ("-r", "one"),
    "exclude": ("--exclude", "list"), "exclude_dir": ("--exclude_dir", "list"), "extensions": ("-e", "list"), "macro": ("-m", "list"),
    "warn": ("-w", "flag"), "force": ("-f", "flag"), "graph": ("-g", "flag"), "quiet": ("-q", "flag"), "dbg": ("--debug", "flag"),
    "include": ("-I", "list"), "externalize": ("--externalize", "flag"), "search": ("--no-search", "negflag"),
    "external": ("-L", "table"),
}


class _PF:
    def __init__(self, name):
        self.name = name


_DIRS = {}


def workdir():
    if "d" not in _DIRS:
        d = core.tmp_root() / f"c15-{os.getpid()}"
        shutil.rmtree(d, ignore_errors=True)
        (d / "proj" / "sub").mkdir(parents=True)
        (d / "elsewhere").mkdir()
        # a small source tree for the options that select files (used by the `select` cases)
        for rel in ("src/a.f90", "src/b.f90", "src/sub/b.f90", "src/sub/c.f90", "src/test_x/t.f90", "lib/b.f90"):
            (d / "proj" / rel).parent.mkdir(parents=True, exist_ok=True)
            (d / "proj" / rel).write_text(f"module m_{rel.replace('/', '_').replace('.', '_')}\nend module\n")
        # ... a source directory beside the project directory (docs/project.md with src_dir: ../src is a common layout)
        for rel in ("outer/x.f90", "outer/skip.f90", "outer/skip_too.f90"):
            (d / rel).parent.mkdir(parents=True, exist_ok=True)
            (d / rel).write_text(f"module m_{rel.replace('/', '_').replace('.', '_')}\nend module\n")
        # ... and files of the same names below the other working directories
        for base in (d, d / "elsewhere"):
            (base / "src").mkdir(exist_ok=True)
            (base / "src" / "b.f90").write_text("! a decoy\n")
        _DIRS["d"] = d
    return _DIRS["d"]


SELECTED = {}


def evaluate(fmt, options, cli=None, cwd="proj", config_extra=None, select=False):
    """Run the real settings pipeline: ford.initialize() = argparse on a real argv + load_settings + parse_arguments.
    fmt in md | toml | config.  Returns (dict of settings | None, error, log)."""
    import sys

    import ford
    from ford.settings import OPTION_SEPARATORS

    root = workdir()
    proj = root / "proj"
    toml = proj / "fpm.toml"
    if toml.exists():
        toml.unlink()
    opts = dict(options)
    body = "Body text of the project file.\n"
    base_opts = {"preprocess": False}
    config = None
    if fmt.startswith("md"):
        # md+extra-other / md+no-extra: an fpm.toml beside the project file that says nothing about FORD
        if fmt == "md+extra-other":
            toml.write_text('name = "demo"\n[extra.fortitude.check]\nselect = ["C", "E"]\n')
        elif fmt == "md+no-extra":
            toml.write_text('name = "demo"\nversion = "0.1.0"\n[build]\nauto-executables = true\n')
        bom = "\ufeff" if fmt == "md+bom" else ""  # the project file saved with a UTF-8 byte-order mark
        lines = []
        for k, v in {**base_opts, **opts}.items():
            lines += md_lines(k, v, OPTION_SEPARATORS.get(k, "="))
        text = bom + "\n".join(lines) + "\n\n" + body
    elif fmt == "toml":
        text = body
        toml.write_text("[extra.ford]\n" + "\n".join(f"{k} = {toml_value(v)}" for k, v in {**base_opts, **opts}.items()) + "\n")
    else:
        text = "preprocess: false\n\n" + body
        config = ";".join(f"{k} = {toml_value(v)}" for k, v in opts.items())
    if config_extra:
        config = ";".join(f"{k} = {toml_value(v)}" for k, v in config_extra.items())
    pf = proj / "project.md"
    pf.write_text(text)
    argv = ["ford", str(pf)]
    if config is not None:
        argv += ["--config", config]
    for k, v in (cli or {}).items():
        flag, kind = CLI_FLAGS[k]
        if kind == "list":
            for x in v:
                argv += [flag, x]
        elif kind == "one":
            argv += [flag, v]
        elif kind == "table":
            for kk, vv in v.items():
                argv += [flag, f"{kk} = {vv}"]
        elif kind == "flag":
            assert v is True
            argv.append(flag)
        elif kind == "negflag":
            assert v is False
            argv.append(flag)
    buf = io.StringIO()
    old = os.getcwd()
    old_argv = sys.argv
    try:
        os.chdir({"proj": proj, "parent": root, "elsewhere": root / "elsewhere"}[cwd])
        sys.argv = argv
        with contextlib.redirect_stdout(buf), contextlib.redirect_stderr(buf):
            try:
                data, docs = ford.initialize()
                if select:
                    import ford.fortran_project as fp

                    SELECTED["files"] = sorted(os.path.relpath(p, proj) for p in fp.find_all_files(data))
            except (Exception, SystemExit) as e:  # noqa
                return None, f"{type(e).__name__}: {e}", buf.getvalue()
    finally:
        sys.argv = old_argv
        os.chdir(old)
        if toml.exists():
            toml.unlink()
    d = dataclasses.asdict(data)
    out = {}
    for k, v in d.items():
        if isinstance(v, Path):
            v = str(v)
        elif isinstance(v, list):
            v = [str(x) if isinstance(x, Path) else x for x in v]
        out[k] = v
    return out, None, buf.getvalue()


UNORDERED = {"extensions"}
VOLATILE = {"creation_date", "year"}


def canon_settings(d):
    out = {}
    for k, v in d.items():
        if k in VOLATILE:
            continue
        if k in UNORDERED and isinstance(v, list):
            v = sorted(v)
        out[k] = v
    return out


def check_formats(st: Stats, options, stratum, feats, cwd="proj"):
    """the same options in the three formats -> equal settings == reference."""
    fields, _ = field_table()
    root = workdir()
    res = {}
    FMTS = ("md", "toml", "config", "md+extra-other", "md+no-extra", "md+bom")
    for fmt in FMTS:
        res[fmt] = evaluate(fmt, options, cwd=cwd)
        st.evaluations += 1
        st.transitions += 1
    inp = dict(options=options, cwd=cwd)
    st.nontrivial.add(core.digest([options, cwd]))
    bad = 0
    errs = {f: r[1] for f, r in res.items() if r[1]}
    if errs:
        if len(errs) < len(FMTS):
            bad += 1
            st.violation("accepted-in-one-format-rejected-in-another", stratum, dict(feats, formats_failing="+".join(sorted(errs))), inp, errs, "same outcome in all formats")
        else:
            bad += 1
            st.violation("valid-value-rejected", stratum, dict(feats, formats_failing="all"), inp, errs, "accepted")
        st.stratum(stratum, bad)
        return
    c = {f: canon_settings(r[0]) for f, r in res.items()}
    st.states.add(core.digest(c["md"]))
    for a, b in (("md", "toml"), ("md", "config"), ("toml", "config"), ("md", "md+extra-other"), ("md", "md+no-extra"), ("md", "md+bom")):
        diff = {k: (c[a].get(k), c[b].get(k)) for k in set(c[a]) | set(c[b]) if c[a].get(k) != c[b].get(k)}
        if diff:
            bad += 1
            k0 = sorted(diff)[0]
            st.violation("formats-disagree", stratum, dict(feats, pair=f"{a}/{b}", field=k0, field_is_option=k0 in options), inp,
                         {k: dict(zip((a, b), v)) for k, v in list(diff.items())[:4]}, "field-wise equal settings")
            break
    for name, v in options.items():
        cls = type_class(fields[name])
        want = reference(name, cls, v, root / "proj")
        for fmt in ("md", "toml", "config"):
            got = c[fmt].get(name)
            if name in UNORDERED:
                ok = set(want) <= set(got or [])
            elif name == "exclude_dir":
                ok = list(got or [])[: len(want)] == want
            elif name == "extra_mods":
                ok = all((got or {}).get(k) == x for k, x in want.items())
            elif name in ("license", "doc_license"):
                ok = got is not None and (got == want or "<" in str(got))
            elif name in VOLATILE or name == "fpp_extensions":
                ok = True  # wall-clock formatted / emptied when preprocessing is off
            else:
                ok = got == want
            if not ok:
                bad += 1
                st.violation("value-differs-from-reference", stratum, dict(feats, fmt=fmt, field=name), inp, got, want)
                break
    st.stratum(stratum, bad)
    if len(st.samples) < 2:
        st.sample(dict(options=options, md="\n".join(l for k, v in options.items() for l in md_lines(k, v)), toml={k: toml_value(v) for k, v in options.items()}))


def run_case(st: Stats, case):
    kind = case[0]
    fields, _ = field_table()
    if kind == "single":
        _, name, v, cwd, *style = case
        style = style[0] if style else "plain"
        # other ways of writing the same metadata: keywords are case-insensitive; fields of an item may be separated by several blanks
        MD_STYLE.update(key={"plain": lambda k: k, "Key": str.capitalize, "KEY": str.upper}.get(style, lambda k: k), gap="   " if style == "gaps" else " ",
                        quote={"dquoted": '"', "squoted": "'"}.get(style, ""))
        try:
            check_formats(st, {name: v}, f"single/{type_class(fields[name])}" + ("" if style == "plain" else "/md-" + style),
                          dict(space="single", option=name, cls=type_class(fields[name]), cwd=cwd, md_style=style), cwd)
        finally:
            MD_STYLE.update(key=lambda k: k, gap=" ", quote="")
    elif kind == "pair":
        _, n1, v1, n2, v2 = case
        check_formats(st, {n1: v1, n2: v2}, "pair", dict(space="pair", option=f"{n1}+{n2}", cls=f"{type_class(fields[n1])}+{type_class(fields[n2])}", cwd="proj"))
    elif kind == "cli":
        _, name, fmt, filev, cliv, cfgv = case
        cls = type_class(fields[name])
        st.nontrivial.add(core.digest(case))
        # file < --config < command line flag
        for layer, kw, want_src in (
            ("file+flag", dict(options={name: filev}, cli={name: cliv}), cliv),
            ("file+config", dict(options={name: filev}, config_extra={name: cfgv}), cfgv),
            ("file+config+flag", dict(options={name: filev}, config_extra={name: cfgv}, cli={name: cliv}), cliv),
            ("flag-only", dict(options={}, cli={name: cliv}), cliv),
        ):
            if fmt == "config" and "config" in layer:
                continue
            got, err, log = evaluate(fmt, kw["options"], cli=kw.get("cli"), config_extra=kw.get("config_extra"))
            st.evaluations += 1
            st.transitions += 1
            want = reference(name, cls, want_src, workdir() / "proj")
            inp = dict(option=name, fmt=fmt, layer=layer, file_value=filev, cli_value=cliv, config_value=cfgv)
            feats = dict(space="cli", option=name, fmt=fmt, layer=layer)
            if err:
                st.violation("precedence-case-rejected", "cli/" + layer, feats, inp, err, want)
                st.stratum("cli/" + layer, 1)
                continue
            g = got.get(name)
            ok = (set(want) <= set(g)) if name in UNORDERED else ((g[: len(want)] == want) if name == "exclude_dir" else g == want)
            if not ok:
                st.violation("wrong-precedence", "cli/" + layer, feats, inp, g, want)
            # what FORD derives from the options follows the final values: the output directory is never read as source
            if "config" not in layer and got.get("output_dir") not in (got.get("exclude_dir") or []):
                ok = False
                st.violation("derived-setting-stale", "cli/" + layer, dict(feats, field="exclude_dir"), inp, dict(output_dir=got.get("output_dir"), exclude_dir=got.get("exclude_dir")),
                             "exclude_dir contains the output directory in force")
            st.stratum("cli/" + layer, 0 if ok else 1)
    elif kind == "select":
        # options that select source files: the selection is the same from every working directory and in every format
        _, optname, value, want, *more = case
        src_dirs = list(more[0]) if more else ["src", "lib"]
        st.nontrivial.add(core.digest(case))
        obs = {}
        for fmt in ("md", "toml"):
            for cwd in ("proj", "parent", "elsewhere"):
                got, err, log = evaluate(fmt, {"src_dir": src_dirs, optname: value}, cwd=cwd, select=True)
                st.evaluations += 1
                st.transitions += 1
                obs[f"{fmt}/{cwd}"] = err or list(SELECTED.get("files", []))
        feats = dict(space="select", option=optname, value=str(value))
        inp = dict(option=optname, value=value, src_dir=src_dirs, want=want)
        bad = 0
        vals = list(obs.values())
        if any(v != vals[0] for v in vals):
            bad = 1
            k = next(k for k, v in obs.items() if v != vals[0])
            st.violation("selection-depends-on-working-directory-or-format", "select/" + optname, dict(feats, differs=k), inp, {"md/proj": vals[0], k: obs[k]}, "the same files whatever the working directory")
        elif want is not None and vals[0] != sorted(want):
            bad = 1
            st.violation("value-differs-from-reference", "select/" + optname, dict(feats, field=optname, fmt="md"), inp, vals[0], sorted(want))
        st.stratum("select/" + optname, bad)
    elif kind == "defaults":
        # nothing is set: whichever way FORD is started, every simple option has the value the documentation gives as its default
        _, fmt = case
        from ford.settings import ProjectSettings

        got, err, log = evaluate(fmt, {})
        st.evaluations += 1
        st.transitions += 1
        st.nontrivial.add(core.digest(case))
        feats = dict(space="defaults", fmt=fmt)
        inp = dict(fmt=fmt, defaults=True)
        bad = 0
        if err:
            bad = 1
            st.violation("ford-failed", "defaults/" + fmt, feats, inp, err, "settings are read")
        else:
            ref = dataclasses.asdict(ProjectSettings(preprocess=False))
            for name, tp in fields.items():
                if type_class(tp) in ("bool", "int") and name not in VOLATILE and got.get(name) != ref.get(name):
                    bad += 1
                    st.violation("value-differs-from-reference", "defaults/" + fmt, dict(feats, field=name), inp, {name: got.get(name)}, {name: ref.get(name)})
        st.stratum("defaults/" + fmt, bad)
    elif kind == "scalar-list":
        # a list option holding one entry may be written as a plain string in fpm.toml, as it is in the project file
        _, name, value = case
        obs = {}
        for fmt, v in (("md", [value]), ("toml", value), ("toml-list", [value])):
            got, err, log = evaluate(fmt.split("-")[0], {name: v})
            st.evaluations += 1
            st.transitions += 1
            obs[fmt] = err or got.get(name)
        st.nontrivial.add(core.digest(case))
        feats = dict(space="scalar-list", option=name)
        inp = dict(option=name, value=value, scalar_list=True)
        bad = 0
        if not (obs["md"] == obs["toml"] == obs["toml-list"]):
            bad = 1
            st.violation("formats-disagree", "scalar-list", feats, inp, obs, "the same one-entry list")
        st.stratum("scalar-list", bad)
    elif kind == "unknown":
        _, fmt, key = case
        got, err, log = evaluate(fmt, {key: "some value", "project": "named"})
        st.evaluations += 1
        st.transitions += 1
        st.nontrivial.add(core.digest(case))
        feats = dict(space="unknown", fmt=fmt, option=key)
        inp = dict(fmt=fmt, key=key)
        bad = 0
        if err:
            bad = 1
            st.violation("unknown-key-aborts", "unknown/" + fmt, feats, inp, err, "warning naming the key; run continues")
        elif key not in log:
            bad = 1
            st.violation("unknown-key-not-reported", "unknown/" + fmt, feats, inp, log[-200:], f"a message naming {key}")
        elif got.get("project") != "named":
            bad = 1
            st.violation("unknown-key-disturbs-other-options", "unknown/" + fmt, feats, inp, got.get("project"), "named")
        st.stratum("unknown/" + fmt, bad)
    elif kind == "illtyped":
        _, fmt, name, v = case
        got, err, log = evaluate(fmt, {name: v})
        st.evaluations += 1
        st.transitions += 1
        st.nontrivial.add(core.digest(case))
        cls = type_class(fields[name])
        feats = dict(space="illtyped", fmt=fmt, option=name, cls=cls)
        inp = dict(fmt=fmt, option=name, value=v)
        bad = 0
        if not err:
            bad = 1
            st.violation("ill-typed-value-accepted", f"illtyped/{fmt}/{cls}", feats, inp, got.get(name), "rejected with a message naming the option")
        elif name not in err and name not in log:
            bad = 1
            st.violation("ill-typed-message-does-not-name-option", f"illtyped/{fmt}/{cls}", feats, inp, err[:200], f"a message naming {name}")
        st.stratum(f"illtyped/{fmt}", bad)


SKIP = {"preprocess", "src_dir"}  # fixed in every case (no preprocessor available); src_dir must stay outside output_dir


def gen_cases(tier):
    from ford.settings import OPTION_SEPARATORS as OPTION_SEP

    fields, _ = field_table()
    singles = []
    for name, tp in fields.items():
        if name in SKIP:
            continue
        cls = type_class(tp)
        for v in values_for(name, cls):
            singles.append((name, v))
            yield ("single", name, v, "proj")
            if isinstance(v, dict) and v and OPTION_SEP.get(name) == ":":
                yield ("single", name, v, "proj", "dquoted")
                yield ("single", name, v, "proj", "squoted")
            # multi-line values / lists under a capitalised keyword; aligned columns in extra_filetypes
            if (isinstance(v, (list, dict)) and len(v) > 1) or (isinstance(v, str) and "\n" in v) or isinstance(v, bool):
                yield ("single", name, v, "proj", "Key")
                yield ("single", name, v, "proj", "KEY")
            if cls == "filetypes":
                yield ("single", name, v, "proj", "gaps")
            if cls in ("path", "list-path"):
                yield ("single", name, v, "parent")
                yield ("single", name, v, "elsewhere")
    yield ("single", "src_dir", ["src2"], "proj")
    yield ("single", "src_dir", ["src2", "other/src3"], "elsewhere")
    if tier == "thorough":
        firsts = {}
        for n, v in singles:
            firsts.setdefault(n, v)
        names = sorted(firsts)
        for a, b in itertools.combinations(names, 2):
            if {a, b} <= {"docmark", "predocmark", "docmark_alt", "predocmark_alt"}:
                continue
            if {a, b} == {"extensions", "fixed_extensions"} or {a, b} == {"external", "extra_mods"}:
                continue
            yield ("pair", a, firsts[a], b, firsts[b])
    for name, (flag, k) in CLI_FLAGS.items():
        cls = type_class(fields[name])
        for fmt in ("md", "toml"):
            if k == "flag":
                yield ("cli", name, fmt, False, True, False)
            elif k == "negflag":
                yield ("cli", name, fmt, True, False, True)
            elif k == "one":
                yield ("cli", name, fmt, "from_file", "from_cli", "from_config")
            elif k == "table":
                yield ("cli", name, fmt, {"filep": "http://file.example/p"}, {"clip": "http://cli.example/p", "clip2": "../local/doc"}, {"cfgp": "http://config.example/p"})
            else:
                yield ("cli", name, fmt, ["from_file"], ["from_cli", "cli2"], ["from_config"])
    ALL = ["src/a.f90", "src/b.f90", "src/sub/b.f90", "src/sub/c.f90", "src/test_x/t.f90", "lib/b.f90"]
    for optname, value, gone in (("exclude", ["src/b.f90"], ["src/b.f90"]), ("exclude", ["src/sub/c.f90"], ["src/sub/c.f90"]), ("exclude", ["**/b.f90"], ["src/b.f90", "src/sub/b.f90", "lib/b.f90"]),
                                 ("exclude", ["lib/b.f90"], ["lib/b.f90"]), ("exclude", ["**/test_*/*.f90"], ["src/test_x/t.f90"]),
                                 ("exclude_dir", ["src/sub"], ["src/sub/b.f90", "src/sub/c.f90"]), ("exclude_dir", ["**/test*"], ["src/test_x/t.f90"]), ("exclude_dir", ["lib"], ["lib/b.f90"]),
                                 ("extensions", ["f90"], [])):
        yield ("select", optname, value, [f for f in ALL if f not in gone])
    # the sources lie beside the project file's directory: patterns written through `..` are relative to the project file as well
    OUT = ["../outer/skip.f90", "../outer/skip_too.f90", "../outer/x.f90"]
    for optname, value, gone in (("exclude", ["../outer/skip.f90"], ["../outer/skip.f90"]), ("exclude", ["../outer/*_too.f90"], ["../outer/skip_too.f90"]),
                                 ("exclude", ["**/skip.f90"], ["../outer/skip.f90"]), ("exclude_dir", ["../outer"], OUT), ("extensions", ["f90"], [])):
        yield ("select", optname, value, [f for f in OUT if f not in gone], ["../outer"])
    for fmt in ("md", "toml", "config"):
        yield ("defaults", fmt)
    for name, value in (("display", "public"), ("display", "private"), ("extensions", "f90"), ("fixed_extensions", "f"), ("exclude", "x.f90"), ("macro", "A=1"),
                        ("md_extensions", "markdown.extensions.toc"), ("extra_vartypes", "mytype")):
        yield ("scalar-list", name, value)
    for fmt in ("md", "toml", "config"):
        for key in ("no_such_option", "projekt", "output-dir", "relative"):  # the last one is an attribute of the settings object, not an option
            yield ("unknown", fmt, key)
        for name, tp in fields.items():
            cls = type_class(tp)
            if cls == "bool" and name != "preprocess":
                yield ("illtyped", fmt, name, "maybe")
            if cls == "int":
                yield ("illtyped", fmt, name, "many")
            if cls == "dict" and fmt == "md":
                # an entry of a key/value table without its separator
                yield ("illtyped", fmt, name, "entry_without_separator")
                yield ("illtyped", fmt, name, "docs https//no.separator/here")


def work(chunk):
    core.use_repo()
    st = Stats()
    for case in chunk:
        run_case(st, case)
    return st


def replay(path):
    core.use_repo()
    rec = json.loads(open(path).read())
    i = rec["input"]
    st = Stats()
    if "options" in i:
        check_formats(st, i["options"], rec["site"], rec["features"], i.get("cwd", "proj"))
    elif i.get("defaults"):
        run_case(st, ("defaults", i["fmt"]))
    elif i.get("scalar_list"):
        run_case(st, ("scalar-list", i["option"], i["value"]))
    elif "src_dir" in i:
        run_case(st, ("select", i["option"], i["value"], i.get("want"), i["src_dir"]))
    else:
        print(i)
        return 1
    for v in st.violations:
        print("REPRODUCED", v["clause"], v["observed"], v["expected"])
    return 1 if st.violations else 0


def main(tier, replay_path=None):
    if replay_path:
        return replay(replay_path)
    t0 = time.time()
    core.use_repo()
    cases = list(gen_cases(tier))
    k = core.SEED % 29
    cases = cases[k:] + cases[:k]
    n = core.WORKERS * 4
    total = Stats()
    for st in core.pmap(work, [c for c in (cases[i::n] for i in range(n)) if c]):
        total.merge(st)
    fields, _ = field_table()
    return core.finish(
        PROP, tier, "model_checking", total, t0,
        rule=(f"every one of {len(fields)} settings fields x value classes of its declared type x 3 formats (path options also from 3 working directories)"
              + ("; every pair of options (first value class each)" if tier == "thorough" else "") +
              f"; {len(CLI_FLAGS)} command-line flags x {{md, toml}} x 4 precedence layerings; 3 unknown keys x 3 formats; every bool/int option ill-typed x 3 formats. "
              "distinct_nontrivial = distinct (options, cwd) and precedence/ill-typed cases"),
        assumptions=[
            "preprocess is fixed to false in every configuration (no preprocessor in this image); creation_date/year are wall-clock values and not compared",
            "the order of `extensions` is a set union (C12's subject) and compared as a set",
            "'random subsets of options' beyond pairs is sampling and not done",
        ],
        bounds=dict(cases=len(cases)),
    )
