"""C12 - output is a deterministic function of the inputs.

The "scheduler" is everything production leaves to chance: the order in which the
file system / a set enumerates the source files, and the iteration order of every
set inside ford and toposort (string-hash randomisation, identity hashes).  The
harness owns both (mc/nd.py injects a chooser-driven set into the ford modules;
find_all_files is wrapped) and explores, per multi-file base project:
  every permutation of the file order  x  every run with <= d deviations from the
  default iteration order at any set-iteration event (reverse / swap / rotate),
  x output directory {absent, stale from another project, from the same project}
  x graphs written in-process with parallel in {0, 2}.
Oracle: byte equality of every written file with the default schedule's output.
Fresh-process runs of `python -m ford` under several PYTHONHASHSEED values validate
that the owned model covers what production shows (thorough).
"""
from __future__ import annotations

import hashlib
import itertools
import os
import shutil
import subprocess
import sys
import time
from pathlib import Path

from mc import core, fordrun, nd
from mc.core import Stats
from mc.explore import explore

PROP = "C12"

P1 = {
    "src/alpha.f90": """module alpha
  !! module alpha
  use base_a
  use iso_fortran_env
  use base_b
  use base_c
  use iso_c_binding
  use ExtLib
  implicit none
  include 'limits.inc'
  type, extends(root_t) :: child1_t
    !! child one
    type(leaf_t) :: l1
  end type child1_t
contains
  subroutine dup(x)
    !! dup in alpha
    integer :: x
    call shared(x)
    call helper_a(x)
  end subroutine dup
  subroutine helper_a(x)
    !! helper in alpha
    use base_c, only: cvar
    integer :: x
    call shared(x)
  end subroutine helper_a
end module alpha
""",
    "src/beta.f90": """module beta
  !! module beta
  use base_c
  use base_a
  use extlib
  implicit none
  type, extends(root_t) :: child2_t
    !! child two
    type(leaf_t) :: l2
  end type child2_t
contains
  subroutine dup(y)
    !! dup in beta
    real :: y
    call shared(1)
  end subroutine dup
  subroutine Dup2()
    !! Dup2 in beta
  end subroutine Dup2
end module beta
""",
    "src/bases.f90": """module base_a
  !! base a
  implicit none
  type root_t
    !! the root type
    integer :: r
  end type root_t
  type leaf_t
    !! a leaf
    integer :: q
  end type leaf_t
  type stack
    !! a type with an overloaded constructor; see [[shared]] and [[main]]
    integer :: depth
  end type stack
  interface stack
    !! constructor of [[stack]]
    module procedure new_stack
  end interface stack
contains
  function new_stack() result(s)
    !! makes a [[stack]]
    type(stack) :: s
    s%depth = 0
  end function new_stack
end module base_a
module base_b
  !! base b
  implicit none
contains
  subroutine shared(i)
    !! shared by many
    integer :: i
  end subroutine shared
end module base_b
module base_c
  !! base c
  implicit none
  integer :: cvar
  !! a variable
end module base_c
""",
    "src/gamma.f90": """module gamma
  !! module gamma
  use base_a
  use petsc, only: pa
  use PETSC, only: pb
  use Petsc, only: pc
  implicit none
  type, extends(root_t) :: child3_t
    !! child three
  end type child3_t
contains
  subroutine dup2()
    !! dup2 in gamma
  end subroutine dup2
end module gamma
program main
  !! main program
  use alpha, only: dupa => dup
  use beta
  use gamma
  use base_b
  implicit none
  call dupa(1)
  call shared(2)
  call dup2()
end program main
""",
}
P2 = {
    "src/one.f90": "module one\n!! one\ncontains\nsubroutine same()\n!! same in one\nend subroutine same\nend module one\n",
    "src/two.f90": "module two\n!! two\ncontains\nsubroutine same()\n!! same in two\nend subroutine same\nsubroutine other()\n!! other\nend subroutine other\nend module two\n",
    "src/three.f90": "subroutine same()\n!! external same\nend subroutine same\nprogram p\n!! prog\nuse one\nuse two, only: other\ncall other()\nend program p\n",
}
# several files defining equally named modules (and an equally named type / program-level procedure)
P3 = {
    "src/a_util.f90": "module util\n!! util of a\ninteger :: from_a\ncontains\nsubroutine helper()\n!! helper a\nend subroutine helper\nend module util\n",
    "src/b_util.f90": "module util\n!! util of b\ninteger :: from_b\ntype util_t\n!! type in b\ninteger :: q\nend type util_t\nend module util\n",
    "src/c_user.f90": "module Util\n!! Util of c (capitalised)\nend module Util\nprogram user\n!! uses a util\nuse util\nend program user\n",
    # two files whose names differ in letter case only, holding equally named procedures
    "src/Dup.f90": "subroutine area()\n!! area of Dup\nend subroutine area\n",
    "src/dup.f90": "subroutine area()\n!! area of dup\nend subroutine area\n",
}
# a page tree whose index names only some of its entries in ordered_subpage (the rest follow alphabetically)
PAGES = {
    "pages/index.md": "title: Guide\nordered_subpage: zeta.md\n                 sub\n\nTop page.\n",
    "pages/zeta.md": "title: Zeta\n\nlast in the alphabet, first in the order\n",
    "pages/alpha.md": "title: Alpha\n\nunlisted a\n",
    "pages/beta.md": "title: Beta\n\nunlisted b\n",
    "pages/gamma.md": "title: Gamma\n\nunlisted c\n",
    "pages/sub/index.md": "title: Sub\nordered_subpage: two.md\n\nsub index\n",
    "pages/sub/one.md": "title: One\n\none\n",
    "pages/sub/two.md": "title: Two\n\ntwo\n",
    "pages/sub/three.md": "title: Three\n\nthree\n",
}
P2 = dict(P2, **PAGES)
# an include file found both beside the including source file and in a configured include directory: the one beside wins, always
P1["src/limits.inc"] = "integer, parameter :: lim_beside = 1\n!! the limit kept beside the source\n"
P1["inc/limits.inc"] = "integer, parameter :: lim_incdir = 2\n!! the limit kept in the include directory\ninteger :: only_in_incdir\n"
P1["inc2/limits.inc"] = "integer, parameter :: lim_incdir2 = 3\n"
# a project that uses two external libraries documenting the same names, with types that carry equally named generic
# bindings (own ones and ones inherited from a common base type) that are called
P4 = {
    "src/solver.f90": """module solver
  !! solver, uses the kinds module of an external library
  use kinds
  implicit none
  type(kind_t) :: the_kind
  !! declared with a type both libraries document
contains
  subroutine solve()
    !! calls what both libraries document
    call setup()
  end subroutine solve
end module solver
""",
    "src/shapes.f90": """module shapes
  !! shapes
  implicit none
  type base_t
    !! base
  contains
    procedure :: run_i
    generic :: run => run_i
    !! run of base
  end type base_t
  type, extends(base_t) :: c1
    !! c1
  end type c1
  type, extends(base_t) :: c2
    !! c2
  end type c2
  type, extends(base_t) :: c3
    !! c3
  end type c3
  type circle
    !! circle
  contains
    procedure :: draw_c, draw_c2
    generic :: draw => draw_c, draw_c2
  end type circle
  type square
    !! square
  contains
    procedure :: draw_s, draw_s2
    generic :: draw => draw_s, draw_s2
  end type square
  type ring
    !! ring
  contains
    procedure :: draw_r, draw_r2
    generic :: draw => draw_r, draw_r2
  end type ring
contains
  subroutine run_i(self)
    !! run_i
    class(base_t) :: self
  end subroutine run_i
  subroutine draw_c(self)
    !! draw_c
    class(circle) :: self
  end subroutine draw_c
  subroutine draw_c2(self, n)
    !! draw_c2
    class(circle) :: self
    integer :: n
  end subroutine draw_c2
  subroutine draw_s(self)
    !! draw_s
    class(square) :: self
  end subroutine draw_s
  subroutine draw_s2(self, n)
    !! draw_s2
    class(square) :: self
    integer :: n
  end subroutine draw_s2
  subroutine draw_r(self)
    !! draw_r
    class(ring) :: self
  end subroutine draw_r
  subroutine draw_r2(self, n)
    !! draw_r2
    class(ring) :: self
    integer :: n
  end subroutine draw_r2
  subroutine use_them(c, s, r, x1, x2, x3)
    !! the caller
    type(circle) :: c
    type(square) :: s
    type(ring) :: r
    type(c1) :: x1
    type(c2) :: x2
    type(c3) :: x3
    call r%draw()
    call s%draw()
    call c%draw()
    call x3%run()
    call x1%run()
    call x2%run()
  end subroutine use_them
end module shapes
""",
}
# ... and two equally named procedures of two modules, both called from one place (equal labels in one graph)
P4["src/inits.f90"] = """module ia
  !! ia
contains
  subroutine init()
    !! init of ia
  end subroutine init
end module ia
module ib
  !! ib
contains
  subroutine init()
    !! init of ib
  end subroutine init
end module ib
module starter
  !! starter
  use ia, only: init_a => init
  use ib, only: init_b => init
contains
  subroutine start_all()
    !! calls both
    call init_b()
    call init_a()
  end subroutine start_all
end module starter
"""
EXT_LIB = """module kinds
  !! kinds of {lib}
  implicit none
  type kind_t
    !! kind_t of {lib}
    integer :: k
  end type kind_t
contains
  subroutine setup()
    !! setup of {lib}
  end subroutine setup
end module kinds
"""
_EXT_JSON = {}


def external_descriptions():
    """modules.json of the two libraries, produced once per process by FORD itself (default iteration orders)"""
    if not _EXT_JSON:
        for lib in ("liba", "libb"):
            r = fordrun.build({"src/kinds.f90": EXT_LIB.format(lib=lib)}, dict(externalize=True, project=lib, graph=False), stage="write", proj_body="lib\n")
            try:
                _EXT_JSON[lib] = (r.out / "modules.json").read_text()
            finally:
                r.cleanup()
    return _EXT_JSON


PROJECTS = {"P1": P1, "P2": P2, "P3": P3, "P4": P4}
# unqualified references from the project-wide context; `stack` names a type and an interface, `same` several procedures
FRONT = "Front page. [[stack]] [[root_t]] [[shared]] [[main]] [[gamma]] [[same]] [[other]] [[one]] [[nosuch]]\n"


def snapshot(out: Path, root=None):
    snap = {}
    for d, _, fs in os.walk(out):
        for f in fs:
            p = Path(d) / f
            rel = p.relative_to(out).as_posix()
            if rel.startswith(("css/", "js/", "webfonts/", "search/tipuesearch")):
                continue
            data = p.read_bytes()
            if root is not None:
                # the location of the project is an input, not chance: scratch roots differ from run to run
                data = data.replace(str(root).encode(), b"ROOT")
            snap[rel] = hashlib.sha1(data).hexdigest()
    return snap


def classify(rel):
    if rel.startswith("dot/"):
        return "/".join(rel.split("/")[:2])
    top = rel.split("/")[0] if "/" in rel else rel
    return top


def build_once(pname, ch, opts, stale=None, perms=None, outdir="doc", rootname=None):
    files = PROJECTS[pname]
    names = sorted(f for f in files if f.startswith("src/"))
    perms = perms or list(itertools.permutations(names))
    ext = external_descriptions() if pname == "P4" else {}
    nd.install()
    nd.begin(ch)
    try:
        pi = ch.choose("file-order", len(perms)) if ch is not None else 0
        perm = perms[pi]
        fordrun.FILE_ORDER = lambda fl: sorted(fl, key=lambda p: perm.index("src/" + p.name))
        root = fordrun.new_root()
        if rootname:
            root = root / rootname
        if any(f.startswith("pages/") for f in files):
            opts = dict(opts, page_dir="pages")
        if ext:
            fordrun.write_tree(root, {f"{lib}/modules.json": text for lib, text in ext.items()})
            opts = dict(opts, external={lib: lib for lib in ext})
        if outdir != "doc":
            opts = dict(opts, output_dir=outdir)
        if stale == "other":
            fordrun.write_tree(root, {f"{outdir}/module/stale.html": "<html>stale</html>", f"{outdir}/src/old.f90": "module stale_old\n!! a module of another project\nend module stale_old\n",
                                      f"{outdir}/index.html": "old", f"{outdir}/extra/deep/file.txt": "x"})
        elif stale in ("same", "same-twice"):
            for _ in range(2 if stale == "same-twice" else 1):
                r0 = fordrun.build(files, opts, stage="write", root=root, keep=True, proj_body=FRONT)
                if r0.error is not None:
                    return r0, perm, list(nd.EVENTS)
        r = fordrun.build(files, opts, stage="write", root=root, keep=True, proj_body=FRONT)
        events = list(nd.EVENTS)
        return r, perm, events
    finally:
        nd.end()
        fordrun.FILE_ORDER = None


def default_trace(args):
    """choice points (label, arity) of the default schedule of one job: used to shard the exploration"""
    pname, bound, optname, opts, stale = args[:5]
    from mc.explore import Chooser

    ch = Chooser()
    r, perm, events = build_once(pname, ch, opts, stale, list(itertools.permutations(sorted(f for f in PROJECTS[pname] if f.startswith("src/")))))
    r.cleanup()
    return [(l, n) for (l, n, _) in ch.trace]


def explore_project(args):
    pname, bound, optname, opts, stale, *more = args
    roots = more[0] if more else None  # shard: explore only the executions whose FIRST deviation is one of these prefixes
    st = Stats()
    base = [None]
    names = sorted(f for f in PROJECTS[pname] if f.startswith("src/"))
    perms = list(itertools.permutations(names))

    def run(ch):
        r, perm, events = build_once(pname, ch, opts, stale, perms)
        try:
            if r.error is not None or r.stage_reached != "write":
                return ("error", repr(r.error) + r.log[-300:], perm, events)
            snap = snapshot(r.out, r.root)
            # the DOT sources handed to graphviz are output too (dot itself is stubbed in-process)
            p_ = r.project
            ents = list(p_.modules) + list(p_.submodules) + list(p_.types) + list(p_.procedures) + list(p_.programs) + list(p_.files)
            for e in ents:
                for attr in ("usesgraph", "usedbygraph", "callsgraph", "calledbygraph", "inhergraph", "inherbygraph", "afferentgraph", "efferentgraph"):
                    g = getattr(e, attr, None)
                    if g is not None and hasattr(g, "dot"):
                        snap[f"dot/{attr}/{e.name}"] = hashlib.sha1(g.dot.source.replace(str(r.root), "ROOT").encode()).hexdigest()
            for attr in ("usegraph", "typegraph", "callgraph", "filegraph"):
                g = getattr(p_, attr, None)
                if g is not None and hasattr(g, "dot"):
                    snap[f"dot/project/{attr}"] = hashlib.sha1(g.dot.source.replace(str(r.root), "ROOT").encode()).hexdigest()
            return ("ok", snap, perm, events)
        finally:
            r.cleanup()

    def executions():
        if roots is None:
            yield from explore(run, bound=bound)
            return
        from mc.explore import Chooser

        ch0 = Chooser()
        base[0] = run(ch0)[1]  # the default schedule is the reference of every shard (judged in the shard without roots)
        for root in roots:
            yield from explore(run, bound=bound, root=root)

    for ch, (status, snap, perm, events) in executions():
        st.evaluations += 1
        st.transitions += len(ch.trace)
        devs = [(l, c) for (l, n, c) in ch.trace if c]
        kinds = sorted({("file-order" if l == "file-order" else "set-order") for l, _ in devs})
        inp = dict(project=pname, options=optname, stale=stale, deviations=devs, file_order=list(perm))
        feats = dict(project=pname, options=optname, stale=stale or "", deviation_kinds="+".join(kinds),
                     sites=",".join(sorted({l.split(":")[1] + ":" + l.split(":")[2] for l, _ in devs if l != "file-order"})))
        stratum = f"{pname}/{optname}/{'+'.join(kinds) or 'default'}"
        st.nontrivial.add(core.digest([pname, optname, stale, devs]))
        if status == "error":
            st.violation("ford-failed", stratum, feats, inp, snap, "site is written")
            st.stratum(stratum, 1)
            continue
        st.states.add(core.digest(snap))
        if base[0] is None:
            base[0] = snap
            st.extra.setdefault("set_iteration_events_default_run", []).append(len(events))
            st.sample(dict(project=pname, options=optname, set_iteration_events=sorted(set(events)), n_files=len(snap)))
            st.stratum(stratum, 0)
            continue
        diff = sorted(k for k in set(snap) | set(base[0]) if snap.get(k) != base[0].get(k))
        if diff:
            only = sorted(set(snap) ^ set(base[0]))
            classes = sorted({classify(k) for k in diff})
            for cls in classes[:3]:
                st.violation("output-depends-on-" + ("file-order" if kinds == ["file-order"] else "set-iteration-order"), stratum,
                             dict(feats, differing=cls, file_set_changed=bool(only)), inp,
                             dict(differing_files=[k for k in diff if classify(k) == cls][:6], files_only_in_one_run=only[:6]), "byte-identical output")
            st.stratum(stratum, 1)
        else:
            st.stratum(stratum, 0)
    return st


def fresh_process_runs(st: Stats, pname, runs):
    """validation with the real front end: `python -m ford` in fresh processes.  runs = [(PYTHONHASHSEED, parallel, graph_dir?)];
    the documentation tree (and the graph directory) must agree byte for byte between all of them."""
    root = core.tmp_root() / f"c12-fresh-{os.getpid()}"
    shutil.rmtree(root, ignore_errors=True)
    fordrun.write_tree(root, PROJECTS[pname])
    ext = external_descriptions() if pname == "P4" else {}
    fordrun.write_tree(root, {f"{lib}/modules.json": text for lib, text in ext.items()})
    ext_lines = "".join(("external: " if i == 0 else "          ") + f"{lib} = ./{lib}\n" for i, lib in enumerate(ext))
    snaps = {}
    for (seed, par, gdir) in runs:
        (root / "proj.md").write_text("project: fresh\npreprocess: false\ngraph: true\nsearch: false\ninclude: ./inc\n         ./inc2\n" + ext_lines + f"parallel: {par}\n" + ("graph_dir: ./graphs\n" if gdir else "") + ("page_dir: ./pages\n" if any(f.startswith("pages/") for f in PROJECTS[pname]) else "")
                                      + "creation_date: DATE\nyear: 2000\n\n" + FRONT)
        env = dict(os.environ, PYTHONHASHSEED=str(seed), PYTHONPATH=str(core.REPO), FORD_DEBUGGING="1")
        out = root / "doc"
        shutil.rmtree(out, ignore_errors=True)
        shutil.rmtree(root / "graphs", ignore_errors=True)
        p = subprocess.run([sys.executable, "-m", "ford", "proj.md"], cwd=root, env=env, capture_output=True, text=True)
        st.evaluations += 1
        st.extra["fresh_process_runs"] = st.extra.get("fresh_process_runs", 0) + 1
        feats = dict(project=pname, options="fresh", stale="", deviation_kinds="process", sites="", parallel=par, graph_dir=bool(gdir))
        if p.returncode != 0:
            st.violation("ford-failed", f"{pname}/fresh-process", feats, dict(project=pname, seed=seed, parallel=par, graph_dir=bool(gdir)),
                         (p.stderr or p.stdout)[-300:], "exit 0 whatever the number of worker processes")
            continue
        snap = snapshot(out, root)
        if gdir:
            for k, v in snapshot(root / "graphs", root).items():
                snap["graph_dir/" + k] = v
        snaps.setdefault(bool(gdir), {})[(seed, par)] = snap
    for gdir, group in snaps.items():
        keys = sorted(group)
        b = group[keys[0]]
        for k in keys[1:]:
            diff = sorted(x for x in set(b) | set(group[k]) if b.get(x) != group[k].get(x))
            if diff:
                st.violation("output-depends-on-hash-seed-or-workers", f"{pname}/fresh-process",
                             dict(project=pname, options="fresh", stale="", deviation_kinds="process", sites="", differing=classify(diff[0]),
                                  seed_differs=keys[0][0] != k[0], parallel_differs=keys[0][1] != k[1], graph_dir=gdir),
                             dict(project=pname, runs=[list(keys[0]), list(k)], graph_dir=gdir), diff[:6], "byte-identical output")
                break
    shutil.rmtree(root, ignore_errors=True)


class LabelChooser:
    """replays recorded deviations by choice-point label (every other choice = default)."""

    def __init__(self, devs):
        self.devs = {l: c for l, c in devs}
        self.trace = []

    def choose(self, label, n):
        c = self.devs.get(label, 0)
        c = c if c < n else 0
        self.trace.append((label, n, c))
        return c


def replay(path):
    import difflib
    import json

    core.use_repo()
    rec = json.loads(open(path).read())
    i = rec["input"]
    print(i)
    print(rec["observed"])
    if "deviations" not in i:
        return 1
    pname, optname = i["project"], i["options"]
    perms = list(itertools.permutations(sorted(f for f in PROJECTS[pname] if f.startswith("src/"))))
    texts = []
    for devs in ([], [tuple(d) for d in i["deviations"]]):
        r, perm, events = build_once(pname, LabelChooser(devs), OPTS[optname], i.get("stale"), perms)
        try:
            texts.append({p.relative_to(r.out).as_posix(): p.read_text(errors="replace").replace(str(r.root), "ROOT")
                          for p in r.out.rglob("*") if p.is_file() and p.suffix in (".html", ".json", ".js", ".gv")})
        finally:
            r.cleanup()
    n = 0
    for rel in sorted(set(texts[0]) | set(texts[1])):
        a, b = texts[0].get(rel, ""), texts[1].get(rel, "")
        if a != b and not rel.startswith(("css/", "js/", "search/tipuesearch")):
            n += 1
            print("=== differs:", rel)
            for l in list(difflib.unified_diff(a.split("\n"), b.split("\n"), lineterm="", n=0))[:12]:
                print("   ", l[:240])
    print("REPRODUCED" if n else "not reproduced", n, "file(s) differ")
    return 1 if n else 0


OPTS = {
    "plain": dict(graph=False),
    "graph": dict(graph=True),
    "graph+search": dict(graph=True, search=True),
    "sort-alpha": dict(graph=True, sort="alpha"),
    "private": dict(graph=True, display=["public", "private", "protected"], proc_internals=True),
    "frontpage2": dict(graph=False, max_frontpage_items=2),
    # graphs too large to be drawn are shown as tables
    "graph-table": dict(graph=True, graph_maxnodes=1),
}


def main(tier, replay_path=None):
    if replay_path:
        return replay(replay_path)
    t0 = time.time()
    core.use_repo()
    bound = 1 if tier == "quick" else 2
    jobs = []
    for pname in PROJECTS:
        for optname in (("graph", "private", "frontpage2", "graph-table") if tier == "quick" else OPTS):
            jobs.append((pname, bound if optname == "graph" else 1, optname, OPTS[optname], None))
        jobs.append((pname, 0, "graph", OPTS["graph"], "other"))
        jobs.append((pname, 0, "graph", OPTS["graph"], "same"))
    # a job with bound >= 2 is split by its first deviation (position, alternative) so that all cores share it
    sharded = []
    for job in jobs:
        if job[1] < 2:
            sharded.append(job)
            continue
        tr = default_trace(job)
        firsts = [[0] * i + [a] for i, (_, n) in enumerate(tr) for a in range(1, n)]
        sharded.append(job[:1] + (0,) + job[2:])  # the default schedule itself
        per = max(1, len(firsts) // (core.WORKERS * 6) + 1)
        for i in range(0, len(firsts), per):
            sharded.append(job + (firsts[i:i + per],))
    total = Stats()
    for st in core.pmap(explore_project, sharded):
        total.merge(st)
    # stale output directories must not matter either: compare the stale states at the default schedule, for an output
    # directory beside the sources, directly inside the source directory and two levels below it
    st = Stats()
    for pname in PROJECTS:
        for outdir in ("doc", "src/doc", "src/build/doc", "src/doc@glob", "src/doc[1]"):
            # @glob: the project lives in a directory whose name holds characters that mean something in a glob pattern
            rootname = None
            if outdir.endswith("@glob"):
                outdir, rootname = outdir[:-5], "run[1]v*"
            snaps = {}
            for stale in (None, "other", "same", "same-twice"):
                r, _, _ = build_once(pname, None, OPTS["graph"], stale, outdir=outdir, rootname=rootname)
                st.evaluations += 1
                if r.error is not None or r.stage_reached != "write":
                    st.violation("ford-failed", f"{pname}/stale", dict(project=pname, options="graph", stale=stale or "", deviation_kinds="history", sites="", outdir=outdir),
                                 dict(project=pname, stale=stale, outdir=outdir), (repr(r.error) + " " + r.log[-200:])[:400], "the run completes whatever an earlier run left behind")
                    snaps[stale] = None
                else:
                    snaps[stale] = snapshot(r.out, r.root)
                r.cleanup()
            if rootname:
                outdir += "@glob"
            for stale in ("other", "same", "same-twice"):
                if snaps[stale] is not None and snaps[None] is not None and snaps[stale] != snaps[None]:
                    diff = sorted(k for k in set(snaps[stale]) | set(snaps[None]) if snaps[stale].get(k) != snaps[None].get(k))
                    st.violation("output-depends-on-previous-output", f"{pname}/stale", dict(project=pname, options="graph", stale=stale, deviation_kinds="history", sites="", differing=classify(diff[0]), outdir=outdir),
                                 dict(project=pname, stale=stale, outdir=outdir), diff[:6], "byte-identical output")
    if tier == "thorough":
        for pname in PROJECTS:
            fresh_process_runs(st, pname, [(seed, par, gd) for seed in range(8) for par in (0, 2, 8) for gd in (False, True)] + [(0, 0, False), (0, 2, True)])
    else:
        fresh_process_runs(st, "P1", [(0, 0, False), (1, 2, False), (2, 8, False), (0, 0, True), (1, 2, True), (2, 8, True)])
        fresh_process_runs(st, "P4", [(0, 0, False), (1, 2, False), (2, 0, False), (3, 0, False)])
    total.merge(st)
    ev = total.extra.get("set_iteration_events_default_run", [])
    return core.finish(
        PROP, tier, "model_checking", total, t0,
        rule=(f"{len(PROJECTS)} multi-file projects (one of them using two external libraries that document the same names) x option sets x (all permutations of the file order + every run with <= {bound} deviating set-iteration events; "
              "deviation alternatives: reversed / first two swapped / rotated) + stale-output histories; oracle = byte equality with the default schedule. "
              f"set-iteration events per default run: {ev}. traces_validated_against_impl counts in-process executions; fresh_process_runs are real `python -m ford` runs under PYTHONHASHSEED x parallel in {0, 2, 8} x graph_dir set / unset"),
        assumptions=[
            "the set shim covers `set(...)` calls in every module of ford and in toposort; set literals/comprehensions exist only in find_all_files, which is wrapped",
            "creation_date and year are pinned; print_creation_date stays off",
            "`dot` is stubbed in-process (fresh-process runs use the real dot)",
        ],
        bounds=dict(deviation_bound=bound, jobs=len(jobs)),
        extra_cov=dict(fresh_process_runs=total.extra.get("fresh_process_runs", 0)),
    )
