"""C20 - an unparseable file is skipped without disturbing the rest.

Fault enumeration: a valid multi-file base project plus one extra file obtained
from valid sources by truncation at EVERY statement boundary, deletion of EACH
END statement, duplicated / misplaced CONTAINS, EVERY prefix-of-X + suffix-of-Y
splice, and a grammar of malformed constructs (prose with apostrophes,
unterminated literals, illegal leading &, inline pre-doc, invalid UTF-8, NULs,
empty file, nested-too-deep, stray END...), placed first / between / last in the
file order, with distinct names and (separate stratum) with the same names as a
valid file.  Oracle (differential): the run terminates within a watchdog and
completes; the canonical tree, page identifiers and project lists of all other
files equal the run without the extra file; a rejected file is named in a
diagnostic and none of its entities is registered.
"""
from __future__ import annotations

import itertools
import re
import signal
import time

from mc import canon, core, fordrun
from mc.core import Stats

PROP = "C20"
WATCHDOG_S = 8

LIB = """module shapes
  implicit none
  private
  public :: shape_t, area, scale_all
  type shape_t
    real :: w = 1.0
    !! width
  contains
    procedure :: grow
  end type shape_t
  interface area
    module procedure area_sq
  end interface area
contains
  subroutine grow(self, f)
    class(shape_t), intent(inout) :: self
    real, intent(in) :: f
    self%w = self%w * f
  end subroutine grow
  real function area_sq(s)
    type(shape_t), intent(in) :: s
    area_sq = s%w * s%w
  end function area_sq
  subroutine scale_all(s, f)
    type(shape_t), intent(inout) :: s(:)
    real, intent(in) :: f
    integer :: i
    do i = 1, size(s)
      call s(i)%grow(f)
    end do
    ! constructs that are open while a truncated copy of this file ends: their names are those of
    ! procedures referenced in the files read later
    associate (volume => f * 2.0, helper => s(1)%w, scale_all => f)
      block
        real :: area
        area = volume * helper + scale_all
      end block
    end associate
  end subroutine scale_all
end module shapes
"""
USER = """module drawing
  use shapes, only: shape_t, area
  implicit none
  type, extends(shape_t) :: box_t
    real :: h = 2.0
  end type box_t
contains
  real function volume(b)
    type(box_t), intent(in) :: b
    volume = area(b%shape_t) * b%h
  end function volume
end module drawing
"""
MAIN = """program demo
  use drawing
  use shapes, only: scale_all
  implicit none
  type(box_t) :: b(2)
  call scale_all(b%shape_t, 2.0)
  print *, volume(b(1))
contains
  subroutine helper()
    print *, 'help'
  end subroutine helper
end program demo
"""
BASE = {"src/b_shapes.f90": LIB, "src/m_drawing.f90": USER, "src/p_main.f90": MAIN}


def rename(src, suffix="zz"):
    """the same source with every defined name made distinct (so nothing refers to it)."""
    out = src
    for n in ("shapes", "shape_t", "area_sq", "area", "scale_all", "grow", "drawing", "box_t", "volume", "demo", "helper"):
        out = re.sub(rf"\b{n}\b", f"{n}_{suffix}", out)
    return out


def stmts(src):
    return src.rstrip("\n").split("\n")


def corruptions(tier):
    """yield (kind, detail, text or bytes)"""
    for label, src in (("lib", rename(LIB)), ("main", rename(MAIN))):
        L = stmts(src)
        for k in range(1, len(L)):
            yield ("truncate", f"{label}@{k}", "\n".join(L[:k]) + "\n")
        for i, l in enumerate(L):
            if l.strip().lower().startswith("end"):
                # ENDs of executable constructs (do, if, select ...) are not tracked by a documentation tool
                tracked = not re.match(r"end\s*(do|if|select|where|forall|critical|team)\b", l.strip().lower())
                yield ("delete-end" if tracked else "delete-end-exec", f"{label}@{i}", "\n".join(L[:i] + L[i + 1:]) + "\n")
            if l.strip().lower() == "contains":
                yield ("dup-contains", f"{label}@{i}", "\n".join(L[:i + 1] + ["contains"] + L[i + 1:]) + "\n")
                yield ("contains-first", f"{label}@{i}", "\n".join(L[:1] + ["contains"] + L[1:i] + L[i + 1:]) + "\n")
        for i, l in enumerate(L):
            if i % 3 == 0:
                yield ("extra-end", f"{label}@{i}", "\n".join(L[:i] + ["end"] + L[i:]) + "\n")
    # an END outside of any program unit, next to complete units: nothing of such a file may be documented
    A_, B_ = rename(LIB), rename(MAIN, "yy")
    yield ("stray-end-file-level", "before-unit", "end\n" + A_)
    yield ("stray-end-file-level", "after-unit", A_ + "end\n")
    yield ("stray-end-file-level", "between-units", A_ + "end module\n" + B_)
    yield ("stray-end-file-level", "before-unit-named", "end subroutine nowhere\n" + B_)
    X, Y = stmts(rename(LIB)), stmts(rename(MAIN, "yy"))
    step = 1
    for i in range(1, len(X), step):
        for j in range(1, len(Y), step):
            yield ("splice", f"lib[:{i}]+main[{j}:]", "\n".join(X[:i] + Y[j:]) + "\n")
            if tier == "thorough":
                yield ("splice", f"main[:{j}]+lib[{i}:]", "\n".join(Y[:j] + X[i:]) + "\n")
    prose = "This isn't Fortran at all, it is just some prose that somebody saved in a file with a Fortran extension by mistake.\n"
    G = {
        "prose": prose * 3,
        "prose-dquote": 'He said "this is not closed and the line goes on and on and on for quite a while longer than that\n' * 2,
        "unterminated-literal": "module zq\n  character(80) :: s = 'this literal is never closed and the statement continues for a long long long time\nend module zq\n",
        "leading-amp": "module zq\n  & integer :: x\nend module zq\n",
        "inline-predoc": "module zq\n  integer :: x !> not allowed here\nend module zq\n",
        "inline-alt-predoc": "module zq\n  integer :: x !| not allowed here\nend module zq\n",
        "only-comments": "! nothing\n!! but docs\n",
        "empty": "",
        "blank-lines": "\n\n\n",
        "invalid-utf8": b"module zq\n  integer :: x \xff\xfe\xfa\n  character :: c = '\xc3\x28'\nend module zq\n",
        "nul-bytes": b"module zq\x00\x00\n integer :: x\nend module zq\n",
        "stray-end": "end\n",
        # unit statements that lack their name / their parenthesised part
        "module-no-name": "module\n  integer :: x\nend module\n",
        "module-no-name-blank": "module  \n integer :: x\nend\n",
        "program-no-name": "program\n  integer :: x\nend program\n",
        "submodule-no-parent": "submodule\nend submodule\n",
        "subroutine-no-name": "subroutine\nend subroutine\n",
        "function-no-name": "function\nend function\n",
        "type-no-name": "module zq\n  type\n  end type\nend module zq\n",
        "interface-operator-bare": "module zq\n  interface operator\n  end interface\nend module zq\n",
        "module-procedure-alone": "module procedure\nend\n",
        "blockdata-bare": "block data\nend block data\n",
        "end-program-only": "end program nothing\n",
        "two-programs": "program p1\nend program p1\nprogram p2\nend program p2\n",
        "function-in-spec": "module zq\n  integer function f()\n  end function f\nend module zq\n",
        "module-in-program": "program zp\n  module inner\n  end module inner\nend program zp\n",
        "abstract-generic": "module zq\n  abstract interface foo\n  end interface\nend module zq\n",
        "bad-enum": "module zq\n  enum, bind(c)\n    enumerator :: a = 1.5\n  end enum\nend module zq\n",
        "unknown-modproc": "module zq\n  interface g\n    module procedure nowhere\n  end interface g\nend module zq\n",
        "submodule-orphan": "submodule (no_such_module) zs\ncontains\n  module procedure p\n  end procedure p\nend submodule zs\n",
        "submodule-bad-parent": "submodule (shapes:no_such_parent) zs\nend submodule zs\n",
        "deep-nesting": "module zq\ncontains\n" + "subroutine s()\ncontains\n" * 6 + "end subroutine\n" * 6 + "end module zq\n",
        "paren-garbage": "module zq\n  integer :: x((((\n  real(kind= :: y\n  type(( :: z\nend module zq\n",
        "use-garbage": "module zq\n  use , only\n  use shapes, only: =>\nend module zq\n",
        "include-missing": "module zq\n  include 'not_there.inc'\nend module zq\n",
        # a file that includes itself ({self} = its own name): it has no finite expansion and cannot be parsed
        "include-itself": "module zq\n  integer :: x\n  include '{self}'\nend module zq\n",
        "include-itself-twice": "module zq\n  include '{self}'\n  integer :: x\n  include '{self}'\nend module zq\n",
        # prose with an apostrophe and a semicolon in one "statement"; a literal left open on a line that goes on after a `;`
        "prose-apostrophe-semicolon": "This file isn't Fortran; it is a note to self\nand it's long; very long\n",
        "open-literal-semicolon": "module zq\n  character(5) :: s = 'abc ; integer :: k\nend module zq\n",
        "binary": bytes(range(256)) * 4,
        "long-line-quote": "x = '" + "a" * 200 + "\n",
        "many-quotes": ("'" * 61 + "\n") * 2,
        "common-garbage": "subroutine zq()\n  common // a, b /c/ d,\n  namelist /n/ \nend subroutine zq\n",
        "type-garbage": "module zq\n  type, extends() :: t\n  end type\n  type :: \n  end type\nend module zq\n",
        # entities that name themselves where another entity is meant (each file parses; what follows must still terminate)
        "submodule-own-parent": "submodule (shapes:zs) zs\ncontains\nend submodule zs\n",
        "submodule-own-parent-with-proc": "module zq\n  interface\n    module subroutine zp()\n    end subroutine zp\n  end interface\nend module zq\nsubmodule (zq:zs) zs\ncontains\n  module subroutine zp()\n  end subroutine zp\nend submodule zs\n",
        "type-extends-itself": "module zq\n  type, extends(zt) :: zt\n    integer :: q\n  end type zt\ncontains\n  subroutine zs(x)\n    class(zt) :: x\n    call x%foo()\n    x%q = x%zt%q\n  end subroutine zs\nend module zq\n",
        "module-uses-itself": "module zq\n  use zq\n  integer :: x\nend module zq\n",
        "procedure-calls-itself-through-type": "module zq\n  type zt\n    type(zt), pointer :: next\n  contains\n    procedure :: zp\n  end type zt\ncontains\n  recursive subroutine zp(self)\n    class(zt) :: self\n    call self%next%next%zp()\n  end subroutine zp\nend module zq\n",
        # text that looks like console markup, echoed in the diagnostics
        "markup-ini-file": "[section]\nkey = value &\n[/section]\n& more [/b]\n",
        "markup-leading-amp": "module zq\n  integer :: x\n  & [/x] stray\nend module zq\n",
        "markup-bad-decl": "module zq\n  integer(kind=[/x]) :: v [/bold]\n  type([/i]) :: w\nend module zq\n",
        "markup-unterminated": "x = 'abc [/i]\n",
        "markup-open-tag": "module zq\n  & [bold red] stray [i]\nend module zq\n",
        "call-garbage": "program zq\n  call \n  call %x()\n  x = f((()\nend program zq\n",
    }
    for k, v in G.items():
        yield ("grammar", k, v)
    # same names as a valid file (a broken copy left next to the original)
    for label, src in (("lib", LIB), ("user", USER)):
        L = stmts(src)
        for k in range(2, len(L), 1 if tier == "thorough" else 2):
            yield ("same-names-truncate", f"{label}@{k}", "\n".join(L[:k]) + "\n")


class Timeout(BaseException):
    pass


_ARMED = [False]


def _alarm(signum, frame):
    if _ARMED[0]:
        raise Timeout()


def _arm(cpu_seconds, wall_seconds=None):
    """The timers are periodic: an alarm that goes off at the recursion limit cannot even enter its handler (RecursionError,
    swallowed by whatever `except Exception` is around), and code under test may swallow the Timeout itself: the next
    period raises it again until the guarded call is left."""
    old = (signal.signal(signal.SIGVTALRM, _alarm), signal.signal(signal.SIGALRM, _alarm))
    _ARMED[0] = True
    signal.setitimer(signal.ITIMER_VIRTUAL, cpu_seconds, 0.2)
    if wall_seconds:
        signal.setitimer(signal.ITIMER_REAL, wall_seconds, 1.0)
    return old


def _disarm(old):
    _ARMED[0] = False
    signal.setitimer(signal.ITIMER_VIRTUAL, 0)
    signal.setitimer(signal.ITIMER_REAL, 0)
    signal.signal(signal.SIGVTALRM, old[0])
    signal.signal(signal.SIGALRM, old[1])


def guarded_build(files, order=None, **extra_opts):
    # the watchdog counts the CPU time of this process (a runaway regex burns CPU), so that a loaded machine cannot
    # turn a slow but finite run into a reported hang; a generous wall-clock limit backs it up
    t = time.time()
    old = _arm(WATCHDOG_S, WATCHDOG_S * 20)
    try:
        try:
            if order:
                fordrun.FILE_ORDER = lambda fl: sorted(fl, key=lambda p: order.index("src/" + p.name))
            r = fordrun.build_fast(files, dict(display=["public", "private", "protected"], proc_internals=True, **extra_opts))
            _ARMED[0] = False
            return r, time.time() - t, False
        except Timeout:
            _ARMED[0] = False
            return None, time.time() - t, True
    except Timeout:  # (a second period ended while the first Timeout was on its way up)
        _ARMED[0] = False
        return None, time.time() - t, True
    finally:
        _disarm(old)
        fordrun.FILE_ORDER = None


def observe(project, skip_file):
    """canonical observation of everything that does not belong to skip_file."""
    recs = [r for r in canon.tree(project) if not r["path"].startswith(f"file:{skip_file}")]
    idents = {}
    for coll in ("modules", "submodules", "procedures", "types", "programs", "absinterfaces", "blockdata"):
        for e in getattr(project, coll, []):
            if e.filename == skip_file:
                continue
            idents[f"{coll}:{e.filename}:{e.name}"] = (e.ident, e.get_url())
    lists = {coll: sorted((e.filename, e.name) for e in getattr(project, coll, []) if e.filename != skip_file)
             for coll in ("modules", "submodules", "procedures", "types", "programs", "files", "namelists")}
    return recs, idents, lists


_BASELINE = {}


def baseline():
    if "b" not in _BASELINE:
        r, _, hung = guarded_build(BASE)
        assert r is not None and r.error is None, (r and r.error, r and r.log)
        _BASELINE["b"] = observe(r.project, "<none>")
    return _BASELINE["b"]


POSITIONS = {"first": "a_bad.f90", "between": "n_bad.f90", "last": "z_bad.f90", "markup-name": "n_[bold]bad[red].f90"}


def run_case(st: Stats, case):
    kind, detail, text, pos = case
    name = POSITIONS[pos]
    files = dict(BASE)
    if isinstance(text, str) and "{self}" in text:
        text = text.replace("{self}", name)
    files[f"src/{name}"] = text
    base = baseline()
    r, dt, hung = guarded_build(files)
    st.evaluations += 1
    st.transitions += 1
    stratum = f"{kind}/{pos}"
    shown = text if isinstance(text, str) else repr(text)
    inp = dict(kind=kind, detail=detail, position=pos, bad_file=name, text=shown[:3000])
    feats = dict(kind=kind, detail=detail if kind == "grammar" else detail.split("@")[0].split("[")[0], position=pos)
    st.nontrivial.add(core.digest([kind, detail, pos]))
    if hung:
        st.violation("hang", stratum, feats, inp, f"no result after {WATCHDOG_S}s of CPU time", "terminates")
        st.stratum(stratum, 1)
        return
    if r.error is not None:
        import traceback

        tb = traceback.extract_tb(r.error.__traceback__)
        where = next((f"{fr.filename.split('/')[-1]}:{fr.name}" for fr in reversed(tb) if "/ford/" in fr.filename), "?")
        msg = re.sub(r"'[^']*'", "'*'", str(r.error))[:60]
        st.violation("run-aborted", stratum, dict(feats, error_class=f"{type(r.error).__name__}@{where}", message=msg), inp, repr(r.error)[:300], "the file is skipped, the run completes")
        st.stratum(stratum, 1)
        return
    accepted = any(f.name == name for f in r.project.files)
    bad = 0
    got = observe(r.project, name)
    st.states.add(core.digest([accepted, got[2]]))
    same_names = kind.startswith("same-names")
    if not (same_names and accepted):
        d = canon.diff(got[0], base[0]) + canon.diff(base[0], got[0])
        if d:
            bad += 1
            what, key, det = d[0]
            st.violation("other-files-tree-changed", stratum, dict(feats, accepted=accepted, diff=what), inp,
                         dict(diff=what, key=list(key), detail=det), "tree of the valid files as without the extra file")
        if got[1] != base[1]:
            bad += 1
            ch = {k: (got[1].get(k), base[1].get(k)) for k in set(got[1]) | set(base[1]) if got[1].get(k) != base[1].get(k)}
            st.violation("other-files-identifiers-changed", stratum, dict(feats, accepted=accepted), inp, ch, "same page identifiers as without the extra file")
        if got[2] != base[2]:
            bad += 1
            st.violation("project-lists-changed", stratum, dict(feats, accepted=accepted), inp, got[2], base[2])
    if accepted and kind == "stray-end-file-level":
        bad += 1
        st.violation("unbalanced-file-accepted", stratum, feats, inp, sorted((c, e.name) for c in ("modules", "procedures", "programs", "types") for e in getattr(r.project, c, []) if e.filename == name),
                     "a file with an END outside of any program unit is rejected")
    if accepted and kind in ("extra-end", "delete-end") and name not in r.log:
        # one END too many / too few: the file cannot be right; FORD may recover from it, but never without naming the file in a diagnostic
        bad += 1
        st.violation("unbalanced-file-accepted", stratum, feats, inp, sorted((c, e.name) for c in ("modules", "procedures", "programs", "types") for e in getattr(r.project, c, []) if e.filename == name),
                     "the file is named in a diagnostic (and rejected, or parsed with the offending statement reported)")
    if accepted and detail.startswith("include-itself") and name not in r.log:
        bad += 1
        st.violation("unbalanced-file-accepted", stratum, feats, inp, sorted((c, e.name) for c in ("modules", "procedures", "programs", "types") for e in getattr(r.project, c, []) if e.filename == name)[:6],
                     "a file that includes itself is named in a diagnostic (and skipped)")
    if not accepted:
        if name not in r.log:
            bad += 1
            st.violation("rejected-file-not-named", stratum, feats, inp, r.log[-300:], f"a diagnostic naming {name}")
        leaked = [(c, e.name) for c in ("modules", "submodules", "procedures", "types", "programs", "namelists", "blockdata")
                  for e in getattr(r.project, c, []) if e.filename == name]
        if leaked:
            bad += 1
            st.violation("rejected-file-leaks-entities", stratum, feats, inp, leaked, "no entity of the rejected file is registered")
    st.stratum(stratum, bad)
    if len(st.samples) < 3 and kind in ("truncate", "splice", "grammar"):
        st.sample(dict(kind=kind, detail=detail, position=pos, accepted=accepted, text=shown[:400], diagnostic=r.log[-200:]))


# ---- projects that use INCLUDE with a configured include directory --------------------------------------------------
INC_BASE = {
    "src/m_solver.f90": "module m_solver\n  implicit none\n  include 'params.inc'\n  include 'limits.h'\ncontains\n  subroutine solve()\n    include 'locals.inc'\n  end subroutine solve\nend module m_solver\n",
    "inc/params.inc": "integer, parameter :: nmax = 10\n!! the right nmax\n",
    "inc/locals.inc": "integer :: work_right\n",
    # what a rejected file may leave behind must not matter: same-named include files next to the bad file
    "src/attic/params.inc": "integer, parameter :: nmax_legacy = 99\ninteger :: legacy_flag\n",
    "src/attic/locals.inc": "integer :: work_legacy\n",
    "src/attic/limits.h": "integer :: only_in_attic\n",
}
_INC_BASELINE = {}


def run_include_case(st: Stats, case):
    _, kind, detail, text = case
    name = "a_bad.f90"
    files = dict(INC_BASE)
    opts = dict(include=["inc"])
    if "b" not in _INC_BASELINE:
        r0, _, _ = guarded_build(files, **opts)
        assert r0 is not None and r0.error is None, (r0 and r0.error, r0 and r0.log)
        _INC_BASELINE["b"] = observe(r0.project, "<none>")
    base = _INC_BASELINE["b"]
    files[f"src/attic/{name}"] = text
    r, dt, hung = guarded_build(files, **opts)
    st.evaluations += 1
    st.transitions += 1
    stratum = f"include-dirs/{kind}"
    shown = text if isinstance(text, str) else repr(text)
    inp = dict(kind=kind, detail=detail, position="first", bad_file="attic/" + name, text=shown[:3000], include_case=True)
    feats = dict(kind=kind, detail=detail if kind == "grammar" else detail.split("@")[0].split("[")[0], position="include-dirs")
    st.nontrivial.add(core.digest(["inc", kind, detail]))
    if hung or r is None:
        st.violation("hang", stratum, feats, inp, f"no result after {WATCHDOG_S}s of CPU time", "terminates")
        st.stratum(stratum, 1)
        return
    if r.error is not None:
        st.violation("run-aborted", stratum, dict(feats, error_class=type(r.error).__name__, message=str(r.error)[:60]), inp, repr(r.error)[:300], "the file is skipped, the run completes")
        st.stratum(stratum, 1)
        return
    got = observe(r.project, name)
    d = canon.diff(got[0], base[0]) + canon.diff(base[0], got[0])
    if d:
        what, key, det = d[0]
        st.violation("other-files-tree-changed", stratum, dict(feats, accepted=any(f.name == name for f in r.project.files), diff=what), inp,
                     dict(diff=what, key=list(key), detail=det), "tree of the valid files as without the extra file")
        st.stratum(stratum, 1)
    else:
        st.stratum(stratum, 0)


# ---- a damaged INCLUDE file shared by several source files: each includer fares alike --------------------------------
BAD_INCLUDES = {
    "valid": "integer :: ok1\ninteger :: ok2\n",
    "leading-amp": "integer :: ok1\n& bad continuation\ninteger :: ok2\n",
    "leading-amp-late": "integer :: ok1\ninteger :: ok2\ninteger :: ok3\n& bad\n",
    "nested-missing": "integer :: ok1\ninclude 'nowhere.inc'\ninteger :: ok2\n",
    "inline-predoc": "integer :: ok1\ninteger :: x !> doc before\ninteger :: ok2\n",
    "undecodable": b"integer :: ok1\ninteger :: y\n! \xff\xfe\xfa\ninteger :: ok2\n",
    "undecodable-doc": b"integer :: ok1\n!! caf\xe9 cr\xe8me\ninteger :: ok2\n!! \xff\xfe\n",
    "undecodable-literal": b"integer :: ok1\ncharacter(9) :: c = 'caf\xe9'\ninteger :: ok2\n",
    "unterminated": "integer :: ok1\ncharacter(9) :: c = 'abc\ninteger :: ok2\n",
    "empty": "",
}


def install_baseline_for_includes():
    if "b" not in _INC_BASELINE:
        r0, _, _ = guarded_build(dict(INC_BASE), include=["inc"])
        assert r0 is not None and r0.error is None, (r0 and r0.error, r0 and r0.log)
        _INC_BASELINE["b"] = observe(r0.project, "<none>")


def run_shared_include_case(st: Stats, case):
    _, kind, nusers, fixed = case
    install_baseline_for_includes()
    text = BAD_INCLUDES[kind]
    ext = "f" if fixed else "f90"
    files = dict(INC_BASE)
    if fixed and isinstance(text, str):
        text = "".join(("      " + l if l and not l.startswith("&") else ("     &" + l[1:] if l else l)) + "\n" for l in text.split("\n")[:-1])
    files["inc/shared.inc"] = text
    ind = "      " if fixed else "  "
    users = [f"u{k}" for k in range(1, nusers + 1)]
    for u in users:
        files[f"src/{u}.{ext}"] = f"{ind}module {u}\n{ind}implicit none\n{ind}integer :: own_{u}\n{ind}include 'shared.inc'\n{ind}end module {u}\n"
    r, dt, hung = guarded_build(files, include=["inc"])
    st.evaluations += 1
    st.transitions += 1
    stratum = f"shared-include/{kind}"
    inp = dict(kind="shared-include", detail=kind, users=nusers, fixed=fixed, include_text=text if isinstance(text, str) else repr(text), shared_include_case=True)
    feats = dict(kind="shared-include", detail=kind, position=f"{nusers}-users", fixed=fixed)
    st.nontrivial.add(core.digest(["shared-inc", kind, nusers, fixed]))
    if hung or r is None:
        st.violation("hang", stratum, feats, inp, f"no result after {WATCHDOG_S}s of CPU time", "terminates")
        st.stratum(stratum, 1)
        return
    if r.error is not None:
        st.violation("run-aborted", stratum, dict(feats, error_class=type(r.error).__name__, message=str(r.error)[:60]), inp, repr(r.error)[:300], "the files are skipped, the run completes")
        st.stratum(stratum, 1)
        return
    bad = 0
    seen = {}
    for u in users:
        mods = [m for m in r.project.modules if m.name == u]
        seen[u] = None if not mods else sorted(v.name.replace(u, "U") for v in mods[0].variables)
    st.states.add(core.digest([kind, sorted(map(str, seen.values()))]))
    vals = list(seen.values())
    if any(v != vals[0] for v in vals):
        bad += 1
        st.violation("includers-of-one-file-fare-differently", stratum, feats, inp, seen, "every file that includes the same text is accepted with the same declarations, or rejected")
    for u in users:
        if seen[u] is None and f"{u}.{ext}" not in r.log:
            bad += 1
            st.violation("rejected-file-not-named", stratum, feats, inp, r.log[-300:], f"a diagnostic naming {u}.{ext}")
            break
    if kind == "valid" and vals[0] != ["ok1", "ok2", "own_U"]:
        bad += 1
        st.violation("includers-of-one-file-fare-differently", stratum, feats, inp, seen, "ok1, ok2 and the module's own variable")
    # the rest of the project is as without these files
    recs = [x for x in canon.tree(r.project) if not any(x["path"].startswith(f"file:{u}.{ext}") for u in users)]
    d = canon.diff(recs, _INC_BASELINE["b"][0]) + canon.diff(_INC_BASELINE["b"][0], recs)
    if d:
        bad += 1
        what, key, det = d[0]
        st.violation("other-files-tree-changed", stratum, dict(feats, diff=what), inp, dict(diff=what, key=list(key), detail=det), "tree of the valid files as without the extra files")
    st.stratum(stratum, bad)


# ---- the whole run (markdown, pages, search index) with the damaged file present -----------------------------------------
def run_full_case(st: Stats, case):
    """A file that passes (or fails) the parser must not bring down a later stage either: FORD's own main() runs to the end."""
    _, kind, detail, text = case
    if kind == "shared-include":
        files = dict(INC_BASE)
        files["inc/shared.inc"] = BAD_INCLUDES[detail]
        for u in ("u1", "u2"):
            files[f"src/{u}.f90"] = f"module {u}\n  implicit none\n  integer :: own_{u}\n  include 'shared.inc'\nend module {u}\n"
        opts = dict(include=["inc"], search=True)
        name = "u1.f90"
    else:
        files = dict(BASE)
        name = POSITIONS["between"]
        if isinstance(text, str) and "{self}" in text:
            text = text.replace("{self}", name)
        files[f"src/{name}"] = text
        opts = dict(search=True)
        if kind == "extra-filetype":
            # the same bytes in a file that is only shown (extra_filetypes), not parsed
            del files[f"src/{name}"]
            name = "n_bad.sh"
            files[f"src/{name}"] = text
            files["src/ok.sh"] = "#! a readable script\necho ok\n"
            opts = dict(search=True, extra_filetypes=[dict(extension="sh", comment="#")])
    old_t = _arm(WATCHDOG_S * 2, WATCHDOG_S * 40)
    hung, r = False, None
    try:
        try:
            r = fordrun.build(files, dict(display=["public", "private", "protected"], **opts), stage="write")
            _ARMED[0] = False
        except Timeout:
            _ARMED[0] = False
            hung = True
    except Timeout:
        _ARMED[0] = False
        hung = True
    finally:
        _disarm(old_t)
    st.evaluations += 1
    st.transitions += 1
    stratum = f"full-run/{kind}"
    shown = text if isinstance(text, str) else repr(text)
    inp = dict(kind=kind, detail=detail, position="full-run", bad_file=name, text=(shown or "")[:3000], full_run=True)
    feats = dict(kind=kind, detail=detail, position="full-run")
    st.nontrivial.add(core.digest(["full", kind, detail]))
    try:
        if hung or r is None:
            st.violation("hang", stratum, feats, inp, f"no result after {WATCHDOG_S * 2}s of CPU time", "terminates")
            st.stratum(stratum, 1)
        elif r.error is not None or r.stage_reached != "write":
            st.violation("run-aborted", stratum, dict(feats, error_class=type(r.error).__name__, message=re.sub(r"'[^']*'", "'*'", str(r.error))[:60]), inp,
                         (repr(r.error) + " " + r.log[-200:])[:400], "the documentation of the other files is written")
            st.stratum(stratum, 1)
        else:
            ok = (r.out / "module" / "shapes.html").exists() if kind != "shared-include" else (r.out / "module" / "m_solver.html").exists()
            if not ok:
                st.violation("other-files-tree-changed", stratum, dict(feats, diff="page-missing"), inp, "the page of a valid module is missing", "pages of the valid files")
            st.stratum(stratum, 0 if ok else 1)
    finally:
        if r is not None:
            r.cleanup()


def _snap(out, root):
    import hashlib
    import os

    snap = {}
    for d, _, fs in os.walk(out):
        for f in fs:
            pth = os.path.join(d, f)
            rel = os.path.relpath(pth, out)
            if rel.startswith(("css/", "js/", "webfonts/", "search/tipuesearch")) and not rel.endswith("_content.js"):
                continue
            snap[rel] = hashlib.sha1(open(pth, "rb").read().replace(str(root).encode(), b"ROOT")).hexdigest()
    return snap


def run_rerun_case(st: Stats, case):
    """history: a run with the file intact, then the file gets damaged and FORD runs again into the same output directory:
    the result equals a first run over the damaged project (nothing of the file's old documentation survives)."""
    _, kind, detail, text = case
    good = rename(LIB)
    name = POSITIONS["between"]
    stratum = f"rerun/{kind}"
    shown = text if isinstance(text, str) else repr(text)
    inp = dict(kind=kind, detail=detail, position="rerun", bad_file=name, text=shown[:3000], rerun=True)
    feats = dict(kind=kind, detail=detail if kind == "grammar" else detail.split("@")[0].split("[")[0], position="rerun")
    st.evaluations += 1
    st.nontrivial.add(core.digest(["rerun", kind, detail]))
    root = fordrun.new_root()
    roots = [root]
    try:
        opts = dict(display=["public", "private", "protected"], search=True)
        r1 = fordrun.build(dict(BASE, **{f"src/{name}": good}), opts, stage="write", root=root, keep=True)
        r2 = fordrun.build(dict(BASE, **{f"src/{name}": text}), opts, stage="write", root=root, keep=True)
        fresh_root = fordrun.new_root()
        roots.append(fresh_root)
        r3 = fordrun.build(dict(BASE, **{f"src/{name}": text}), opts, stage="write", root=fresh_root, keep=True)
        st.transitions += 3
        if any(r.error is not None or r.stage_reached != "write" for r in (r1, r2, r3)):
            bad_r = next(r for r in (r1, r2, r3) if r.error is not None or r.stage_reached != "write")
            st.violation("run-aborted", stratum, dict(feats, error_class=type(bad_r.error).__name__, message=str(bad_r.error)[:60]), inp, repr(bad_r.error)[:300], "every run completes")
            st.stratum(stratum, 1)
            return
        a, b = _snap(r2.out, root), _snap(r3.out, fresh_root)
        if a != b:
            diff = sorted(k for k in set(a) | set(b) if a.get(k) != b.get(k))
            st.violation("other-files-tree-changed", stratum, dict(feats, diff="stale-output" if any(k not in b for k in diff) else "content"), inp,
                         dict(only_after_rerun=[k for k in diff if k not in b][:6], differing=[k for k in diff if k in a and k in b][:6]), "the same site as a first run over the damaged project")
            st.stratum(stratum, 1)
        else:
            st.stratum(stratum, 0)
    finally:
        import shutil

        for rt in roots:
            shutil.rmtree(rt, ignore_errors=True)


def work(chunk):
    st = Stats()
    for case in chunk:
        if case[0] == "rerun":
            run_rerun_case(st, case)
        elif case[0] == "full":
            run_full_case(st, case)
        elif case[0] == "shared-include":
            run_shared_include_case(st, case)
        elif case[0] == "include":
            run_include_case(st, case)
        else:
            run_case(st, case)
    return st


def gen_cases(tier):
    for kind in BAD_INCLUDES:
        yield ("full", "shared-include", kind, None)
    for detail, text in (("invalid-utf8", b"#! caf\xe9 \xff\xfe script\necho x\n"), ("binary", bytes(range(256)) * 4), ("empty", ""), ("no-comments", "echo plain\n")):
        yield ("full", "extra-filetype", detail, text)
    n_re = 0
    for kind, detail, text in corruptions(tier):
        if kind == "grammar":
            yield ("full", kind, detail, text)
        if (kind == "grammar" and detail in ("prose", "stray-end", "invalid-utf8", "module-no-name", "empty")) or (kind == "truncate" and detail.startswith("lib@") and n_re < (6 if tier == "quick" else 40)):
            n_re += kind == "truncate"
            yield ("rerun", kind, detail, text)
    for kind in BAD_INCLUDES:
        for nusers in (1, 2, 3):
            for fixed in (False, True):
                yield ("shared-include", kind, nusers, fixed)
    for kind, detail, text in corruptions(tier):
        if kind in ("truncate", "grammar", "delete-end", "extra-end", "stray-end-file-level") and (tier == "thorough" or kind != "truncate" or int(detail.split("@")[1]) % 3 == 0):
            yield ("include", kind, detail, text)
        positions = ("first", "between", "last") + (("markup-name",) if kind == "grammar" else ())
        for pos in positions:
            yield (kind, detail, text, pos)


def replay(path):
    import json

    core.use_repo()
    rec = json.loads(open(path).read())
    if rec["input"].get("rerun"):
        st = Stats()
        i = rec["input"]
        k, d, t = next((k, d, t) for (k, d, t) in corruptions("thorough") if k == i["kind"] and d == i["detail"])
        run_rerun_case(st, ("rerun", k, d, t))
        for v in st.violations:
            print("REPRODUCED", v["clause"], v["observed"])
        return 1 if st.violations else 0
    if rec["input"].get("full_run"):
        st = Stats()
        i = rec["input"]
        text = None
        if i["kind"] != "shared-include":
            text = next(t for (k, d, t) in corruptions("thorough") if k == i["kind"] and d == i["detail"])
        run_full_case(st, ("full", i["kind"], i["detail"], text))
        print(i["text"])
        for v in st.violations:
            print("REPRODUCED", v["clause"], v["observed"])
        return 1 if st.violations else 0
    if rec["input"].get("shared_include_case"):
        st = Stats()
        install_baseline_for_includes()
        run_shared_include_case(st, ("shared-include", rec["input"]["detail"], rec["input"]["users"], rec["input"]["fixed"]))
        print(rec["input"]["include_text"])
        for v in st.violations:
            print("REPRODUCED", v["clause"], v["observed"])
        return 1 if st.violations else 0
    want = (rec["input"]["kind"], rec["input"]["detail"], rec["input"]["position"])
    for case in gen_cases("thorough"):
        if rec["input"].get("include_case"):
            if case[0] != "include" or (case[1], case[2]) != want[:2]:
                continue
            st = Stats()
            run_include_case(st, case)
            print(rec["input"]["text"])
            for v in st.violations:
                print("REPRODUCED", v["clause"], v["observed"])
            return 1 if st.violations else 0
        if case[0] != "include" and (case[0], case[1], case[3]) == want:
            st = Stats()
            run_case(st, case)
            print(rec["input"]["text"])
            for v in st.violations:
                print("REPRODUCED", v["clause"], v["observed"])
            return 1 if st.violations else 0
    print("case not found")
    return 2


def main(tier, replay_path=None):
    if replay_path:
        return replay(replay_path)
    t0 = time.time()
    core.use_repo()
    cases = list(gen_cases(tier))
    k = core.SEED % 19
    cases = cases[k:] + cases[:k]
    n = core.WORKERS * 8
    total = Stats()
    for st in core.pmap(work, [c for c in (cases[i::n] for i in range(n)) if c]):
        total.merge(st)
    return core.finish(
        PROP, tier, "fault_enumeration", total, t0,
        rule=("one extra file per run: truncation at every statement boundary of two valid sources, deletion of each END, duplicated/misplaced CONTAINS, "
              "stray END at every third position, prefix+suffix splices (" + ("every cut pair, both directions" if tier == "thorough" else "every third cut") + "), "
              "40 malformed-construct inputs, broken copies with the same names as a valid file; file read first" + (" / between / last" if tier == "thorough" else " (grammar and same-name cases: first/between/last)") +
              ". distinct_nontrivial = distinct (corruption, position)"),
        assumptions=[
            "default settings (dbg on): parse errors are warnings",
            "the extra file defines names that no valid file refers to, except in the same-names stratum, which is judged only when the broken copy is rejected",
            f"watchdog {WATCHDOG_S}s per run (a timeout is reported as a hang)",
        ],
        bounds=dict(cases=len(cases), watchdog_s=WATCHDOG_S),
    )
