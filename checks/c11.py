"""C11 - [[...]] references link to the entity the documented rules select.

One base project in which names are reused at several levels (module procedure
vs. type-bound binding `area`, module variable vs. component `size`, type vs.
constructor interface `shape`, two modules, program, submodule, namelist, block
data, abstract interface, generic interface with module procedure).  EVERY
reference spelling of a catalogue (each target x no qualifier / each documented
kind synonym for either part / child part present or not / upper-case / absent
target / hidden target / inside a code span and a fenced block) is placed in
EVERY documentation context (doc of module, type, procedure, variable, component,
program, source file; project file; static pages at depth 0, 1, 2), batched and
one-per-paragraph (both must agree).  A reference resolver implementing the
documented lookup (own contents, parent's contents, whole project; qualifiers
honoured) selects the expected entity; on EVERY generated page that displays the
text the produced href is resolved from that page and must reach the expected
entity's page/anchor; absent => plain text + warning; code => verbatim.
"""
from __future__ import annotations

import re
import time
import urllib.parse
import posixpath

from mc import core, fordrun
from mc.core import Stats
from mc.site import Site

PROP = "C11"

SRC = {
    "src/geo.f90": """!! FILEDOC
module geo
  !! GEODOC
  implicit none
  private :: hidden_proc, hidden_var, combine_h
  integer :: size
  !! SIZEVARDOC
  integer :: hidden_var
  !! hidden variable
  type shape
    !! SHAPEDOC
    integer :: size
    !! COMPDOC
  contains
    procedure :: area => area_impl
    !! binding area
    final :: done
  end type shape
  interface shape
    !! constructor interface
    module procedure make_shape
  end interface shape
  interface combine
    !! generic combine
    module procedure combine_i
    module procedure combine_h
  end interface combine
  abstract interface
    subroutine callback(n)
      !! abstract callback
      integer :: n
    end subroutine callback
  end interface
  interface
    module subroutine later(k)
      !! separate module procedure
      integer :: k
    end subroutine later
  end interface
contains
  subroutine area(x)
    !! AREAPROCDOC
    real :: x
    !! dummy x of area
  end subroutine area
  real function scale(x)
    !! SCALEDOC
    real :: x
    !! dummy x of scale
    scale = x
  end function scale
  subroutine setup()
    !! setup reads a namelist
    integer :: nval
    namelist /config/ nval
    !! namelist config
  end subroutine setup
  real function area_impl(self)
    !! implementation of the binding
    class(shape) :: self
    area_impl = 1.0
  end function area_impl
  subroutine done(self)
    !! finaliser
    type(shape) :: self
  end subroutine done
  type(shape) function make_shape()
    !! constructor function
    make_shape%size = 1
  end function make_shape
  subroutine combine_i(a)
    !! specific of combine
    integer :: a
  end subroutine combine_i
  subroutine hidden_proc()
    !! a private procedure
  end subroutine hidden_proc
  subroutine combine_h(a)
    !! a private specific of combine
    real :: a
  end subroutine combine_h
end module geo
submodule (geo) geo_impl
  !! SUBMODDOC
contains
  module subroutine later(k)
    !! implementation of later
    integer :: k
  end subroutine later
end submodule geo_impl
""",
    "src/other.f90": """module other
  !! OTHERDOC
  use geo
  implicit none
  type shape2
    !! a second type
    type(shape) :: inner
    !! component of type shape
  end type shape2
contains
  subroutine perimeter(s)
    !! PERIMDOC
    type(shape) :: s
    !! dummy s
  end subroutine perimeter
end module other
program main
  !! MAINDOC
  use other
  implicit none
  integer :: counter
  !! program variable
end program main
block data bd
  !! block data doc
  integer :: bv
  common /blk/ bv
end block data bd
""",
    # a file whose name starts with a digit; entities declared with capital letters
    "src/1d_heat.f90": """module HeatSolver
  !! heat solver module
  implicit none
  integer :: MaxIter
  !! iteration limit
  type Grid_t
    !! the grid
    integer :: Nx
    !! number of cells
  end type Grid_t
contains
  subroutine Step(G, Dt)
    !! one step
    type(Grid_t) :: G
    !! grid dummy
    real :: Dt
    !! time step
  end subroutine Step
end module HeatSolver
""",
}

# abstract description: path -> (link kind at top level or None, sublink kind under its parent)
# top-level collections as in the user guide; children by sub-kind
TOP = {
    "geo": "module", "other": "module", "geo_impl": "submodule", "main": "program", "bd": "block", "geo.f90": "file", "other.f90": "file",
    "shape": "type", "shape2": "type", "callback": "absinterface", "config": "namelist",
    # procedures (incl. generic interfaces and the constructor interface)
    "area": "proc", "scale": "proc", "setup": "proc", "area_impl": "proc", "done": "proc", "make_shape": "proc", "combine_i": "proc",
    "combine": "proc", "perimeter": "proc", "later": "proc", "hidden_proc": "proc", "combine_h": "proc",
    "heatsolver": "module", "1d_heat.f90": "file", "grid_t": "type", "step": "proc",
}
# children: parent -> [(name, subkind)]
CHILDREN = {
    "geo": [("size", "variable"), ("shape", "type"), ("shape", "interface"), ("combine", "interface"), ("callback", "absinterface"), ("area", "subroutine"),
            ("scale", "function"), ("setup", "subroutine"), ("area_impl", "function"), ("done", "subroutine"), ("make_shape", "function"),
            ("combine_i", "subroutine"), ("later", "interface")],
    "shape": [("size", "variable"), ("area", "bound"), ("done", "final"), ("shape", "constructor")],
    "area": [("x", "variable")],
    "scale": [("x", "variable"), ("scale", "variable")],
    "combine": [("combine_i", "modproc")],
    "other": [("shape2", "type"), ("perimeter", "subroutine")],
    "shape2": [("inner", "variable")],
    "perimeter": [("s", "variable")],
    "main": [("counter", "variable")],
    "bd": [("bv", "variable"), ("blk", "common")],
    "setup": [("nval", "variable"), ("config", "namelist")],
    "heatsolver": [("maxiter", "variable"), ("grid_t", "type"), ("step", "subroutine")],
    "grid_t": [("nx", "variable")],
    "step": [("g", "variable"), ("dt", "variable")],
}
LINK_SYNONYMS = {"module": ["module"], "submodule": ["submodule"], "type": ["type"], "proc": ["procedure", "proc", "subroutine", "function"],
                 "file": ["file"], "absinterface": ["interface", "absinterface"], "program": ["program"], "block": ["block"], "namelist": ["namelist"]}
SUBKINDS = ["variable", "type", "constructor", "interface", "absinterface", "subroutine", "function", "final", "bound", "modproc", "common"]


def obj_of(project, path):
    """FORD object for an abstract path like 'geo', 'geo/shape', 'shape/area(bound)'."""
    parts = path.split("/")
    top = parts[0]
    kind = TOP[top] if top in TOP else None
    coll = {"module": "modules", "submodule": "submodules", "program": "programs", "block": "blockdata", "file": "allfiles", "type": "types",
            "absinterface": "absinterfaces", "namelist": "namelists", "proc": "procedures"}[kind]
    objs = [o for o in getattr(project, coll) if o.name.lower() == top.lower()]
    if kind == "proc" and top == "shape":
        objs = [o for o in objs if o.obj != "type"]
    if not objs:
        return None
    o = objs[0]
    for p in parts[1:]:
        m = re.match(r"(\w+)\((\w+)\)", p)
        name, sub = m.group(1), m.group(2)
        attr = {"variable": "variables", "type": "types", "constructor": "constructor", "interface": "interfaces", "absinterface": "absinterfaces",
                "subroutine": "subroutines", "function": "functions", "final": "finalprocs", "bound": "boundprocs", "modproc": "modprocs", "common": "common"}[sub]
        c = getattr(o, attr, None)
        if c is None:
            return None
        c = [c] if not isinstance(c, (list, tuple)) else list(c)
        if sub == "variable":
            c = c + list(getattr(o, "args", [])) + ([o.retvar] if getattr(o, "retvar", None) is not None and not isinstance(o.retvar, str) else [])
        found = [x for x in c if hasattr(x, "name") and (x.name or "").lower() == name.lower()]
        if not found:
            return None
        o = found[0]
    return o


# ---- reference catalogue -----------------------------------------------------------

def catalogue(private=False):
    """[(spelling, expected: dict context-class -> abstract path | 'ABSENT' | 'PARENT:<path>')]
    context classes: 'geo' (doc of module geo), 'shape' (doc of type shape), 'scale', 'sizevar' (module variable: parent geo),
    'comp' (component of shape: parent shape), 'main', 'global' (project file, static pages, file doc, other module)."""
    C = []

    def add(sp, default, **by_ctx):
        exp = {c: default for c in ("geo", "shape", "scale", "sizevar", "comp", "main", "global", "other")}
        exp.update(by_ctx)
        C.append((sp, exp))

    # unique top-level names, every synonym
    for name, kind in (("geo", "module"), ("other", "module"), ("geo_impl", "submodule"), ("main", "program"), ("bd", "block"), ("geo.f90", "file"),
                       ("shape2", "type"), ("callback", "absinterface"), ("config", "namelist"), ("scale", "proc"), ("perimeter", "proc"), ("combine", "proc"),
                       ("setup", "proc")):
        if kind != "file":
            if name == "scale":
                add("[[scale]]", "scale", scale="scale/scale(variable)")  # inside the function its own result variable comes first
            else:
                add(f"[[{name}]]", name)
        for syn in LINK_SYNONYMS[kind]:
            add(f"[[{name}({syn})]]", name)
    add("[[GEO]]", "geo")
    add("[[Shape2(TYPE)]]", "shape2")
    add("[[Perimeter(Subroutine)]]", "perimeter")
    # `area`: module procedure vs. type-bound binding of shape
    add("[[area]]", "area", shape="shape/area(bound)", comp="shape/area(bound)")
    add("[[area(proc)]]", "area")
    add("[[area(subroutine)]]", "area")
    add("[[geo:area]]", "area")
    add("[[geo:area(subroutine)]]", "area")
    add("[[geo(module):area(subroutine)]]", "area")
    add("[[shape:area]]", "shape/area(bound)")
    add("[[shape:area(bound)]]", "shape/area(bound)")
    add("[[shape(type):area(bound)]]", "shape/area(bound)")
    # `size`: module variable vs. component
    add("[[geo:size]]", "geo/size(variable)")
    add("[[geo:size(variable)]]", "geo/size(variable)")
    add("[[shape(type):size]]", "shape/size(variable)")
    add("[[shape(type):size(variable)]]", "shape/size(variable)")
    add("[[size]]", "ABSENT", geo="geo/size(variable)", sizevar="geo/size(variable)", shape="shape/size(variable)", comp="shape/size(variable)", scale="geo/size(variable)")
    # dummy arguments
    add("[[scale:x]]", "scale/x(variable)")
    add("[[scale(function):x(variable)]]", "scale/x(variable)")
    add("[[x]]", "ABSENT", scale="scale/x(variable)")
    # other children
    add("[[geo:callback(absinterface)]]", "callback")
    add("[[geo:combine(interface)]]", "combine")
    add("[[combine:combine_i(modproc)]]", "combine_i")  # a `module procedure` line has no place of its own: the procedure it names
    add("[[shape(type):done(final)]]", "shape/done(final)")
    add("[[shape(type):shape(constructor)]]", "shape/shape(constructor)")
    add("[[bd:blk(common)]]", "bd/blk(common)")
    add("[[geo:scale(function)]]", "scale")
    add("[[other:shape2(type)]]", "shape2")
    add("[[shape2:inner]]", "shape2/inner(variable)")
    add("[[main:counter]]", "main/counter(variable)")
    # entities declared with capital letters, referenced in any letter case; a file name starting with a digit
    add("[[HeatSolver]]", "heatsolver")
    add("[[heatsolver]]", "heatsolver")
    add("[[HEATSOLVER(module)]]", "heatsolver")
    add("[[Grid_t]]", "grid_t")
    add("[[grid_t(type)]]", "grid_t")
    add("[[Step]]", "step")
    add("[[step(proc)]]", "step")
    add("[[HeatSolver:MaxIter]]", "heatsolver/maxiter(variable)")
    add("[[heatsolver:maxiter(variable)]]", "heatsolver/maxiter(variable)")
    add("[[heatsolver:step(subroutine)]]", "step")
    add("[[Step:Dt]]", "step/dt(variable)")
    add("[[step:g(variable)]]", "step/g(variable)")
    add("[[grid_t:nx]]", "grid_t/nx(variable)")
    add("[[Grid_t(type):Nx(variable)]]", "grid_t/nx(variable)")
    add("[[1d_heat.f90]]", "1d_heat.f90")
    add("[[1d_heat.f90(file)]]", "1d_heat.f90")
    add("[[2d_nosuch.f90]]", "ABSENT")
    # absent / hidden
    add("[[nosuch]]", "ABSENT")
    add("[[nosuch(module)]]", "ABSENT")
    add("[[geo:nosuch]]", "PARENT:geo")
    add("[[hidden_proc]]", "hidden_proc" if private else "ABSENT")
    add("[[combine:combine_h(modproc)]]", "combine_h" if private else "PARENT:combine")  # the specific is not documented: at most the generic is linked
    add("[[geo:hidden_var]]", "geo/hidden_var(variable)" if private else "PARENT:geo")
    return [c for c in C if c is not None]


CTX_MARK = {"geo": "GEODOC", "shape": "SHAPEDOC", "scale": "SCALEDOC", "sizevar": "SIZEVARDOC", "comp": "COMPDOC", "main": "MAINDOC",
            "other": "OTHERDOC", "file": "FILEDOC", "submod": "SUBMODDOC", "perim": "PERIMDOC", "areaproc": "AREAPROCDOC"}
CTX_CLASS = {"file": "global", "submod": "geo?", "perim": "other?", "areaproc": "geo?"}


def ref_text(ctx, cat, layout, exclude=()):
    """documentation text holding every reference of the catalogue, each wrapped in markers."""
    parts = []
    for k, (sp, _) in enumerate(cat):
        if (ctx, k) in exclude or (ctx.startswith("page") and ("proj", k) in exclude):
            continue
        parts.append(f"Q{ctx}Q{k}Q {sp} QEQ")
    code = f"`[[geo]]` QCODE{ctx}Q"
    if layout == "batched":
        return [" ".join(parts) + " " + code]
    out = []
    for p in parts:
        out += [p, ""]
    return out + [code]


def build_project(cat, layout, exclude=()):
    files = {}
    for f, text in SRC.items():
        lines = []
        for line in text.split("\n"):
            m = re.match(r"^(\s*)!! (\w+DOC)\s*$", line)
            if m and m.group(2) in CTX_MARK.values():
                ctx = [c for c, mk in CTX_MARK.items() if mk == m.group(2)][0]
                for t in ref_text(ctx, cat, layout, exclude):
                    lines.append(f"{m.group(1)}!! {t}".rstrip())
            else:
                lines.append(line)
        files[f] = "\n".join(lines)
    body = "\n".join(ref_text("proj", cat, layout, exclude)) + "\n\n```\n[[geo]] QFENCEprojQ\n```\n"
    for rel, ctx in (("pages/index.md", "page0"), ("pages/sub/index.md", "page1"), ("pages/sub/deep/index.md", "page2"), ("pages/sub/deep/leaf.md", "page2b")):
        files[rel] = f"title: {ctx}\n\n" + "\n".join(ref_text(ctx, cat, layout, exclude)) + "\n"
    return files, body


CLASS_OF = {"geo": "geo", "shape": "shape", "scale": "scale", "sizevar": "sizevar", "comp": "comp", "main": "main", "other": "other",
            "file": "global", "proj": "global", "projsum": "global", "projauth": "global", "page0": "global", "page1": "global", "page2": "global", "page2b": "global",
            "submod": "submod", "perim": "perim", "areaproc": "areaproc"}
EXTRA_CLASS = {
    # contexts whose lookup differs from 'global' only by their own / parent's contents
    "submod": {},  # parent = file: nothing
    "perim": {"[[s]]": "perimeter/s(variable)"},
    "areaproc": {"[[x]]": "area/x(variable)", "[[size]]": "geo/size(variable)", "[[area]]": "area"},
}


def expected_for(ctx, sp, exp):
    cls = CLASS_OF[ctx]
    if cls in exp:
        return exp[cls]
    if cls in EXTRA_CLASS:
        return EXTRA_CLASS[cls].get(sp, exp["global"] if cls != "perim" else exp["other"])
    return exp["global"]


MARK_RE = re.compile(r"Q(\w+?)Q(\d+)Q(.*?)QEQ", re.S)
A_RE = re.compile(r"<a\b[^>]*?href=['\"]([^'\"]*)['\"][^>]*>(.*?)</a>", re.S)


def aborting_spellings(st: Stats, cat, opts_name, opts, stratum):
    """A reference that aborts the whole run hides every other one: find them by placing each spelling alone
    in each documentation context, report them, and return the set of (context, index) to leave out."""
    bad = set()
    ctxs = [c for c in CTX_MARK] + ["proj"]
    for ctx in ctxs:
        for k, (sp, exp) in enumerate(cat):
            files = dict(SRC)
            body = "front\n"
            if ctx == "proj":
                body = f"{sp}\n"
            else:
                mk = CTX_MARK[ctx]
                f = "src/geo.f90" if mk in SRC["src/geo.f90"] else "src/other.f90"
                files[f] = re.sub(rf"!! {mk}\b", f"!! {sp}", SRC[f])
            o = dict(incl_src=False, search=False)
            o.update(opts)
            r = fordrun.build(files, o, stage="markdown", proj_body=body)
            st.evaluations += 1
            if r.error is not None:
                bad.add((ctx, k))
                st.violation("reference-aborts-run", stratum, dict(layout="single", options=opts_name, ctx=ctx, ctx_class=CLASS_OF.get(ctx, "global"), spelling=sp,
                                                                 error=type(r.error).__name__), dict(layout="single", options=opts_name, spelling=sp, context=ctx),
                             repr(r.error)[:200], "a link, or plain text with a warning")
            r.cleanup()
    return bad


def run_layout(st: Stats, layout, opts_name, opts, _exclude=None):
    cat = catalogue(private="private" in (opts.get("display") or []))
    files, body = build_project(cat, layout, _exclude or set())
    o = dict(page_dir="pages", incl_src=True, search=False)
    o.update(opts)
    # the project's `summary` and `author_description` options are documentation text too (shown on the front page)
    ex = _exclude or set()
    o["summary"] = " ".join(t for t in ref_text("projsum", cat, "batched", {("projsum", k) for (c, k) in ex if c == "proj"}))
    o["author"] = "A. Person"
    o["author_description"] = " ".join(t for t in ref_text("projauth", cat, "batched", {("projauth", k) for (c, k) in ex if c == "proj"}))
    r = fordrun.build(files, o, stage="write", proj_body=body)
    st.evaluations += 1
    stratum = f"{layout}/{opts_name}"
    inp0 = dict(layout=layout, options=opts_name)
    try:
        if (r.error is not None or r.stage_reached != "write") and _exclude is None:
            bad = aborting_spellings(st, cat, opts_name, opts, stratum)
            if bad:
                r.cleanup()
                return run_layout(st, layout, opts_name, opts, _exclude=bad)
        if r.error is not None or r.stage_reached != "write":
            st.violation("ford-failed", stratum, dict(layout=layout, options=opts_name, ctx="", spelling=""), inp0, (repr(r.error) + " " + r.log[-400:]).strip(), "site is written")
            st.stratum(stratum, 1)
            return
        site = Site(r.out)
        seen = {}
        for rel, pg in sorted(site.pages.items()):
            if rel.startswith("sourcefile/"):
                continue  # the verbatim source listing is not converted documentation
            # (the project summary is repeated, stripped of its tags, in the <meta name="description"> of every page: not a place for links)
            for m in MARK_RE.finditer(re.sub(r"<meta\b[^>]*>", "", pg.raw)):
                ctx, k, inner = m.group(1), int(m.group(2)), m.group(3)
                if ctx not in CLASS_OF or k >= len(cat):
                    continue
                sp, exp = cat[k]
                want = expected_for(ctx, sp, exp)
                st.transitions += 1
                a = A_RE.search(inner)
                inp = dict(inp0, context=ctx, spelling=sp, page=rel)
                feats = dict(layout=layout, options=opts_name, ctx=ctx, ctx_class=CLASS_OF[ctx], spelling=sp, page_dir=rel.split("/")[0] if "/" in rel else rel,
                             expected_kind=("absent" if want == "ABSENT" else ("parent" if want.startswith("PARENT:") else "entity")))
                key = (ctx, k)
                seen.setdefault(key, set()).add(rel)
                st.nontrivial.add(core.digest([layout, opts_name, ctx, k, rel]))
                if want == "ABSENT":
                    if a and a.group(1):
                        st.violation("absent-target-linked", stratum, feats, inp, a.group(1), "plain text")
                        st.stratum(stratum, 1)
                    else:
                        st.stratum(stratum, 0)
                    continue
                path = want[7:] if want.startswith("PARENT:") else want
                obj = obj_of(r.project, path)
                if obj is None:
                    st.violation("harness-cannot-find-expected-entity", stratum, feats, inp, path, "entity present in the project")
                    st.stratum(stratum, 1)
                    continue
                url = obj.get_url()
                if want.startswith("PARENT:") and not (a and a.group(1)):
                    st.stratum(stratum, 0)  # plain text is fine for a missing child
                    continue
                if not a or not a.group(1):
                    st.violation("reference-not-linked", stratum, feats, inp, inner.strip()[:120], url)
                    st.stratum(stratum, 1)
                    continue
                href = a.group(1)
                u = urllib.parse.urlsplit(href)
                target = posixpath.normpath(posixpath.join(posixpath.dirname(rel), urllib.parse.unquote(u.path))) if u.path else rel
                got = target + ("#" + urllib.parse.unquote(u.fragment) if u.fragment else "")
                wantu = urllib.parse.unquote(url)
                if got != wantu:
                    cl = "link-to-wrong-entity" if target in site.files else "link-does-not-resolve-from-this-page"
                    st.violation(cl, stratum, feats, inp, dict(href=href, resolves_to=got), wantu)
                    st.stratum(stratum, 1)
                else:
                    st.stratum(stratum, 0)
            # code stays verbatim
            for m in re.finditer(r"QCODE(\w+?)Q", pg.raw):
                pre = pg.raw[max(0, m.start() - 120): m.start()]
                if "[[geo]]" not in pre:
                    st.violation("reference-in-code-span-substituted", stratum, dict(layout=layout, options=opts_name, ctx=m.group(1), spelling="`[[geo]]`"), dict(inp0, page=rel), pre[-80:], "`[[geo]]` verbatim")
            for m in re.finditer(r"QFENCE(\w+?)Q", pg.text):
                pre = pg.text[max(0, m.start() - 40): m.start()]
                if "[[geo]]" not in pre.replace(" ", ""):
                    st.violation("reference-in-code-block-substituted", stratum, dict(layout=layout, options=opts_name, ctx=m.group(1), spelling="```[[geo]]```"), dict(inp0, page=rel), pre[-80:], "[[geo]] verbatim")
        # warnings for absent targets
        for sp in ("nosuch",) + (() if "private" in (opts.get("display") or []) else ("hidden_proc",)):
            if f"[[{sp}]]" not in r.log and sp not in r.log:
                st.violation("absent-target-without-warning", stratum, dict(layout=layout, options=opts_name, ctx="", spelling=sp), inp0, r.log[-200:], f"a warning naming {sp}")
        st.states.add(core.digest(sorted((k, tuple(sorted(v))) for k, v in seen.items())))
        st.extra["contexts_displayed_on_pages"] = {f"{c}": sorted({p for (cc, _), ps in seen.items() if cc == c for p in ps})[:6] for c in sorted({c for c, _ in seen})}
        if len(st.samples) < 1:
            st.sample(dict(layout=layout, n_references=len(cat), contexts=sorted({c for c, _ in seen}), example=cat[20][0]))
    finally:
        r.cleanup()


def work(job):
    st = Stats()
    run_layout(st, *job)
    return st


def replay(path):
    import json

    core.use_repo()
    rec = json.loads(open(path).read())
    print(rec["input"], rec["observed"], rec["expected"])
    st = Stats()
    run_layout(st, rec["input"]["layout"], rec["input"]["options"], OPTSETS[rec["input"]["options"]])
    hits = [v for v in st.violations if v["input"].get("spelling") == rec["input"].get("spelling") and v["input"].get("context") == rec["input"].get("context")]
    for v in hits[:5]:
        print("REPRODUCED", v["clause"], v["input"].get("page"), v["observed"])
    return 1 if hits else 0


OPTSETS = {
    "default": dict(),
    "private": dict(display=["public", "private", "protected"], proc_internals=True),
    "nosrc": dict(incl_src=False),
    "search": dict(search=True),
    "sorted": dict(sort="alpha"),
}


def main(tier, replay_path=None):
    if replay_path:
        return replay(replay_path)
    t0 = time.time()
    core.use_repo()
    jobs = [(layout, name, OPTSETS[name]) for layout in ("batched", "separate") for name in (("default", "nosrc") if tier == "quick" else OPTSETS)]
    total = Stats()
    for st in core.pmap(work, jobs):
        total.merge(st)
    cat = catalogue()
    return core.finish(
        PROP, tier, "model_checking", total, t0,
        rule=(f"{len(cat)} reference spellings x 16 documentation contexts x 2 layouts (batched / one per paragraph) x option sets; every occurrence on every generated "
              "page is resolved from that page (transitions = link instances judged); distinct_nontrivial = distinct (layout, options, context, spelling, page)"),
        assumptions=[
            "when several entities share a name and no qualifier is given the guide leaves the result undefined; such spellings are only generated where the documented lookup order decides",
            "for parent:child references with a missing child FORD's documented fallback (warning + link to the parent) or plain text are both accepted",
            "the expected URL is the URL FORD itself assigns to the expected entity (page/anchor correctness is C09/C10's subject)",
        ],
        bounds=dict(spellings=len(cat), builds=len(jobs)),
        extra_cov=dict(contexts_displayed_on_pages=total.extra.get("contexts_displayed_on_pages")),
    )
