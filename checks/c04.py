"""C04 - accessibility of every entity follows Fortran's PUBLIC/PRIVATE rules.

Full product (nothing sampled) of
  scope default {none, public, private} x its position {early, late}
  x declaration attribute {none, public, private, protected}
  x access statement {none, public, private, protected} x its position {before, after}
  x entity kind (10), illegal combinations removed by the reference rules,
single entities, all ordered pairs of entities over a reduced value set (cross-talk),
3 embedding contexts, types (component / binding defaults), submodules.
Oracle: a direct implementation of the standard's rule.
"""
from __future__ import annotations

import itertools
import time

from mc import core, fordrun
from mc.core import Stats

PROP = "C04"

MODULE_KINDS = [
    "variable",
    "parameter",
    "type",
    "subroutine",
    "function",
    "generic interface",
    "abstract interface",
    "operator interface",
    "relational operator interface",
    "generic interface of bodies",
    "type with constructor",
    "enumerator",
    "namelist group",
]
ATTR_KINDS = ("variable", "parameter", "type", "type with constructor")  # kinds whose declaration can carry an access attribute


def legal(kind, attr, stmt):
    if attr != "none" and kind not in ATTR_KINDS:
        return False
    if "protected" in (attr, stmt) and kind != "variable":
        return False
    # an entity's accessibility may be specified at most once; protected is a separate attribute
    acc = [x for x in (attr, stmt) if x in ("public", "private")]
    if len(acc) > 1:
        return False
    if attr == "protected" and stmt == "protected":
        return False
    return True


def expected(default, attr, stmt, kind):
    acc = [x for x in (attr, stmt) if x in ("public", "private")]
    access = acc[0] if acc else ("private" if default == "private" else "public")
    if kind == "variable" and "protected" in (attr, stmt):
        return "protected" if access == "public" else "private"
    return access


# an intrinsic relational operator has two spellings that name the same generic: `==` and `.eq.`, ...
REL = {1: ("==", ".eq."), 2: ("/=", ".ne."), 3: ("<", ".lt."), 4: ("<=", ".le."), 5: (">", ".gt."), 6: (">=", ".ge.")}


def refname(kind, n, upper=False, blank=False, word=False):
    if kind == "relational operator interface":
        r = f"operator({REL[n][1 if word else 0]})"
    else:
        r = (f"operator (.o{n}.)" if blank else f"operator(.o{n}.)") if kind == "operator interface" else f"e{n}"
    return r.upper() if upper else r


def entity_lines(kind, n, attr, case=0):
    """(specification-part lines, contains-part lines) declaring entity number n."""
    name = f"e{n}" if case != 1 else f"E{n}"
    O = "o" if case != 1 else "O"
    a = f", {attr}" if attr != "none" else ""
    if kind == "variable":
        return [f"integer{a} :: {name}"], []
    if kind == "parameter":
        return [f"integer, parameter{a} :: {name} = {n}"], []
    if kind == "type":
        return [f"type{a} :: {name}", f"  integer :: c{n}", "end type"], []
    if kind == "type with constructor":
        # a derived type and the generic interface overloading its constructor: one identifier, one accessibility
        return ([f"type{a} :: {name}", f"  integer :: c{n}", "end type", f"interface {name}", f"  module procedure mk{n}", "end interface"],
                [f"function mk{n}(c) result(r)", "  integer, intent(in) :: c", f"  type({name}) :: r", f"  r%c{n} = c", f"end function mk{n}"])
    if kind == "enumerator":
        return ["enum, bind(c)", f"  enumerator :: {name} = {n}, en_other{n}", "end enum"], []
    if kind == "namelist group":
        return [f"integer :: nlv{n}", f"namelist /{name}/ nlv{n}"], []
    if kind == "subroutine":
        return [], [f"subroutine {name}()", f"end subroutine {name}"]
    if kind == "function":
        return [], [f"integer function {name}()", f"  {name} = {n}", f"end function {name}"]
    if kind == "generic interface":
        return (
            [f"interface {name}", f"  module procedure impl{n}", "end interface"],
            [f"subroutine impl{n}(a)", "  integer :: a", f"end subroutine impl{n}"],
        )
    if kind == "generic interface of bodies":
        # the specific procedure is declared by an interface body: it is an entity of its own (gb<n>) with the scope's default
        return (
            [f"interface {name}", f"  subroutine gb{n}(a)", "    integer :: a", f"  end subroutine gb{n}", "end interface"],
            [],
        )
    if kind == "abstract interface":
        return (
            ["abstract interface", f"  subroutine {name}(a)", "    integer :: a", f"  end subroutine {name}", "end interface"],
            [],
        )
    if kind == "relational operator interface":
        # case 7: the interface statement uses the word form (the access statement the symbol), case 6 the other way round
        return (
            [f"type :: rt{n}", "  integer :: q", f"end type rt{n}", f"interface operator({REL[n][1 if case == 7 else 0]})", f"  module procedure relimpl{n}", "end interface"],
            [f"logical function relimpl{n}(a, b)", f"  type(rt{n}), intent(in) :: a, b", f"  relimpl{n} = a%q == b%q", f"end function relimpl{n}"],
        )
    if kind == "operator interface":
        return (
            [f"interface operator{' ' if case == 4 else ''}(.{O}{n}.)", f"  module procedure opimpl{n}", "end interface"],
            [f"integer function opimpl{n}(a, b)", "  integer, intent(in) :: a, b", f"  opimpl{n} = a + b", f"end function opimpl{n}"],
        )
    raise ValueError(kind)


def module_source(default, default_pos, ents, context=0, modname="m"):
    """ents: list of (kind, attr, stmt, stmt_pos)."""
    spec, cont = [], []
    # contexts 3 / 4: access statements share their line with the next statement (`private; x` / `private ; x`)
    sep = {3: "; ", 4: " ; "}.get(context)
    if default != "none" and default_pos == "early":
        spec.append(default + (sep + "integer :: semi_v0" if sep else ""))
    if context == 1:
        spec += ["integer :: before_1", "real, private :: before_2"]
    for n, (kind, attr, stmt, stmt_pos, *rest) in enumerate(ents, 1):
        case = rest[0] if rest else 0
        s, c = entity_lines(kind, n, attr, case)
        ref = f"gb{n}" if (case == 5 and kind == "generic interface of bodies") else refname(kind, n, upper=(case == 2), blank=(case == 3), word=(case == 6))
        line = f"{stmt} :: {ref}" + (sep + f"integer :: semi_v{n}" if sep else "")
        if stmt != "none" and stmt_pos == "before":
            spec.append(line)
        spec += s
        cont += c
        if stmt != "none" and stmt_pos == "after":
            spec.append(line)
    if context == 1:
        spec += ["integer, public :: after_1", "real :: after_2"]
    if default != "none" and default_pos == "late":
        spec.append(default + (sep + "integer :: semi_vl" if sep else ""))
    src = [f"module {modname}", "implicit none"] + ["  " + l for l in spec]
    if cont:
        src += ["contains"] + ["  " + l for l in cont]
    src += [f"end module {modname}"]
    if context == 2:
        other = "private" if default != "private" else "public"
        src = ["module zz_other", other, "integer :: oth_1", "end module zz_other"] + src + [
            "module zz_after", other, "integer :: oth_2", "end module zz_after"]
    return "\n".join(src) + "\n"


def find_entity(mod, kind, n):
    name = refname(kind, n).lower()
    coll = {
        "variable": "variables",
        "parameter": "variables",
        "type": "types",
        "type with constructor": "types",
        "enumerator": "enums",
        "namelist group": "namelists",
        "subroutine": "subroutines",
        "function": "functions",
        "generic interface": "interfaces",
        "generic interface of bodies": "interfaces",
        "operator interface": "interfaces",
        "relational operator interface": "interfaces",
        "abstract interface": "absinterfaces",
    }[kind]
    if kind == "relational operator interface":
        return [e for e in mod.interfaces if (e.name or "").lower().replace(" ", "") in (f"operator({REL[n][0]})", f"operator({REL[n][1]})")]
    if kind == "enumerator":
        return [v for en in mod.enums for v in en.variables if (v.name or "").lower() == name]
    found = [e for e in getattr(mod, coll) if (e.name or "").lower() == name]
    return found


DISPLAY_ALL = dict(display=["public", "private", "protected"], proc_internals=True)


def run_module_case(st: Stats, default, default_pos, ents, context, stratum):
    src = module_source(default, default_pos, ents, context)
    r = fordrun.build_fast({"src/m.f90": src}, DISPLAY_ALL)
    st.evaluations += 1
    st.transitions += 1
    inp = dict(source=src)
    if r.error is not None or not r.project or "ERROR in file" in r.log or "Error parsing" in r.log:
        st.violation("ford-failed", stratum, dict(kind=ents[0][0]), inp, repr(r.error) + r.log[-300:], "parses")
        st.stratum(stratum, 1)
        return
    mods = [m for m in r.project.modules if m.name == "m"]
    obs_all = []
    bad = 0
    for n, (kind, attr, stmt, stmt_pos, *rest) in enumerate(ents, 1):
        names_body = bool(rest and rest[0] == 5 and kind == "generic interface of bodies")
        want = expected(default, attr, stmt if not names_body else "none", kind)
        found = find_entity(mods[0], kind, n) if mods else []
        got = found[0].permission if len(found) == 1 else f"<{len(found)} entities>"
        obs_all.append(got)
        if kind == "type with constructor" and mods:
            ifs = [i for i in mods[0].interfaces if (i.name or "").lower() == f"e{n}"]
            igot = ifs[0].permission if len(ifs) == 1 else f"<{len(ifs)} interfaces>"
            if igot != want:
                bad += 1
                st.violation("wrong-permission", stratum, dict(kind="constructor interface", default=default, default_pos=default_pos if default != "none" else "-", attr=attr,
                                                                stmt=stmt, stmt_pos=stmt_pos if stmt != "none" else "-", expected=want, observed=igot, n_entities=len(ents), case=(rest[0] if rest else 0)),
                             inp, igot, want)
        if kind == "generic interface of bodies" and len(found) == 1:
            body = [p for p in list(getattr(found[0], "subroutines", [])) + list(getattr(found[0], "functions", [])) if p.name.lower() == f"gb{n}"]
            body_got = body[0].permission if len(body) == 1 else f"<{len(body)} bodies>"
            body_want = "private" if default == "private" else "public"
            if names_body and stmt in ("public", "private"):
                body_want = stmt  # the access statement names the interface body itself
            if body_got != body_want:
                bad += 1
                st.violation("wrong-permission", stratum, dict(kind="interface body", default=default, default_pos=default_pos if default != "none" else "-", attr="none",
                                                                stmt=stmt if names_body else "none", stmt_pos="-", generic_stmt=stmt if not names_body else "none", expected=body_want, observed=body_got, n_entities=len(ents)),
                             inp, body_got, body_want)
        if got != want:
            bad += 1
            st.violation(
                "wrong-permission",
                stratum,
                dict(kind=kind, default=default, default_pos=default_pos if default != "none" else "-",
                     attr=attr, stmt=stmt if not names_body else "none", stmt_pos=stmt_pos if (stmt != "none" and not names_body) else "-",
                     expected=want, observed=got, n_entities=len(ents), case=(rest[0] if rest else 0),
                     protected_with_access=bool(kind == "variable" and "protected" in (attr, stmt)
                                                and (default == "private" or {attr, stmt} & {"public", "private"}))),
                inp,
                got,
                want,
            )
    if context == 1 and mods:
        # sentinels
        exp_s = dict(before_1="private" if default == "private" else "public", before_2="private",
                     after_1="public", after_2="private" if default == "private" else "public")
        for v in mods[0].variables:
            if v.name in exp_s and v.permission != exp_s[v.name]:
                bad += 1
                st.violation("wrong-permission", stratum + "/sentinel",
                             dict(kind="variable", default=default, default_pos=default_pos if default != "none" else "-",
                                  attr={"before_2": "private", "after_1": "public"}.get(v.name, "none"), sentinel=v.name,
                                  stmt="none", stmt_pos="-", expected=exp_s[v.name], observed=v.permission, n_entities=len(ents)),
                             inp, v.permission, exp_s[v.name])
    st.stratum(stratum, bad)
    st.states.add(core.digest([default, default_pos, ents, obs_all]))
    st.nontrivial.add(core.digest([default, default_pos, ents]))
    if len(st.samples) < 3:
        st.sample(dict(source=src, observed=obs_all))


def single_configs(kind):
    for attr, stmt, stmt_pos in itertools.product(
        ["none", "public", "private", "protected"], ["none", "public", "private", "protected"], ["before", "after"]
    ):
        if stmt == "none" and stmt_pos == "after":
            continue
        if legal(kind, attr, stmt):
            for case in (0, 1, 2):  # 1: declared name in upper case, 2: access statement names it in upper case
                if case == 2 and stmt == "none":
                    continue
                yield (kind, attr, stmt, stmt_pos, case)
            if kind == "generic interface of bodies" and stmt in ("public", "private"):
                # 5: the access statement names the specific procedure declared by the interface body, not the generic
                yield (kind, attr, stmt, stmt_pos, 5)
            if kind == "relational operator interface" and stmt != "none":
                yield (kind, attr, stmt, stmt_pos, 6)
                yield (kind, attr, stmt, stmt_pos, 7)
            if kind == "operator interface" and stmt != "none":
                # 3: the access statement writes `operator (.x.)`, 4: the interface statement does
                yield (kind, attr, stmt, stmt_pos, 3)
                yield (kind, attr, stmt, stmt_pos, 4)


DEFAULTS = [("none", "early"), ("public", "early"), ("public", "late"), ("private", "early"), ("private", "late")]


def gen_single(contexts):
    for (default, dpos), kind, ctx in itertools.product(DEFAULTS, MODULE_KINDS, contexts):
        for cfg in single_configs(kind):
            yield ("module", default, dpos, [cfg], ctx, "module/single")


def reduced_configs(kind):
    out = [(kind, "none", "none", "before"), (kind, "none", "private", "after", 1), (kind, "none", "public", "before")]
    if kind in ATTR_KINDS:
        out.append((kind, "private", "none", "before"))
    if kind == "variable":
        out.append((kind, "protected", "none", "before"))
    return out


def gen_pairs(contexts):
    for (default, dpos), k1, k2, ctx in itertools.product(DEFAULTS, MODULE_KINDS, MODULE_KINDS, contexts):
        if k1 == k2:
            continue
        for c1, c2 in itertools.product(reduced_configs(k1), reduced_configs(k2)):
            yield ("module", default, dpos, [c1, c2], ctx, "module/pair")


# ---- types -----------------------------------------------------------------

def type_source(mod_default, t_attr, t_stmt, comp_default, bind_default, c_attr, b_attr, g_attr):
    a = f", {t_attr}" if t_attr != "none" else ""
    spec = []
    if mod_default != "none":
        spec.append(mod_default)
    if t_stmt != "none":
        spec.append(f"{t_stmt} :: t1")
    spec += [f"type{a} :: t1"]
    if comp_default:
        spec.append("  private")
    ca = f", {c_attr}" if c_attr != "none" else ""
    spec += [f"  integer{ca} :: c1", "  real :: c2", "contains"]
    if bind_default:
        spec.append("  private")
    ba = f", {b_attr}" if b_attr != "none" else ""
    ga = f", {g_attr}" if g_attr != "none" else ""
    spec += [f"  procedure{ba} :: b1 => impl1", "  procedure :: b2 => impl2", f"  generic{ga} :: g1 => b1, b2",
             "  procedure :: b3, b4", "end type t1"]
    cont = []
    for i, arg in ((1, "integer :: a"), (2, "real :: a"), (3, "integer :: a"), (4, "real :: a")):
        nm = f"impl{i}" if i < 3 else f"b{i}"
        cont += [f"subroutine {nm}(self, a)", "  class(t1) :: self", f"  {arg}", f"end subroutine {nm}"]
    src = ["module m", "implicit none"] + ["  " + l for l in spec] + ["contains"] + ["  " + l for l in cont] + ["end module m"]
    return "\n".join(src) + "\n"


def run_type_case(st: Stats, case):
    (_, mod_default, t_attr, t_stmt, comp_default, bind_default, c_attr, b_attr, g_attr) = case
    src = type_source(mod_default, t_attr, t_stmt, comp_default, bind_default, c_attr, b_attr, g_attr)
    r = fordrun.build_fast({"src/m.f90": src}, DISPLAY_ALL)
    st.evaluations += 1
    st.transitions += 1
    inp = dict(source=src)
    stratum = "type"
    if r.error is not None or not r.project or not r.project.modules or "ERROR in file" in r.log or "Error parsing" in r.log:
        st.violation("ford-failed", stratum, {}, inp, repr(r.error) + r.log[-300:], "parses")
        st.stratum(stratum, 1)
        return
    m = r.project.modules[0]
    ts = [t for t in m.types if t.name.lower() == "t1"]
    want = {
        "type:t1": expected(mod_default, t_attr, t_stmt, "type"),
        "comp:c1": c_attr if c_attr != "none" else ("private" if comp_default else "public"),
        "comp:c2": "private" if comp_default else "public",
        "bind:b1": b_attr if b_attr != "none" else ("private" if bind_default else "public"),
        "bind:b2": "private" if bind_default else "public",
        "bind:b3": "private" if bind_default else "public",
        "bind:b4": "private" if bind_default else "public",
        "bind:g1": g_attr if g_attr != "none" else ("private" if bind_default else "public"),
    }
    got = {}
    if len(ts) == 1:
        t = ts[0]
        got["type:t1"] = t.permission
        for v in t.variables:
            got[f"comp:{v.name.lower()}"] = v.permission
        for b in t.boundprocs:
            got[f"bind:{b.name.lower()}"] = b.permission
    bad = 0
    for k, w in want.items():
        g = got.get(k, "<missing>")
        if g != w:
            bad += 1
            st.violation("wrong-permission", stratum,
                         dict(kind=k.split(":")[0], name=k, mod_default=mod_default, t_attr=t_attr, t_stmt=t_stmt,
                              comp_default=comp_default, bind_default=bind_default, c_attr=c_attr, b_attr=b_attr, g_attr=g_attr,
                              expected=w, observed=g),
                         inp, g, w)
    st.stratum(stratum, bad)
    st.states.add(core.digest([case, sorted(got.items())]))
    st.nontrivial.add(core.digest(case))
    if len([s for s in st.samples if "type" in str(s)[:200]]) < 1:
        st.sample(dict(source=src, observed=got))


def gen_types(full):
    accs = ["none", "public", "private"]
    for mod_default, t_attr, t_stmt, cd, bd, c_attr, b_attr, g_attr in itertools.product(
        ["none", "private"], accs, accs, [False, True], [False, True], accs, accs, accs if full else ["none", "public"]
    ):
        if t_attr != "none" and t_stmt != "none":
            continue
        yield ("type", mod_default, t_attr, t_stmt, cd, bd, c_attr, b_attr, g_attr)



# ---- attribute lists: the access attribute among other attributes, any position, any letter case --------------------

VAR_OTHERS = ["save", "target", "dimension(3)", "volatile", "asynchronous"]
TYPE_OTHERS = ["extends(t0)", "abstract", "bind(c)"]


def gen_attrlists(full):
    for mod_default in ("none", "private", "public"):
        for acc in ("none", "public", "private", "protected"):
            for upper in (False, True):
                # variables
                for k in range(0, 3 if full else 2):
                    for others in itertools.permutations(VAR_OTHERS if full else VAR_OTHERS[:3], k):
                        for pos in range(0, k + 1) if acc != "none" else (0,):
                            yield ("attrlist", "variable", mod_default, acc, upper, others, pos)
                if acc == "protected":
                    continue
                for k in range(0, 3):
                    for others in itertools.permutations(TYPE_OTHERS, k):
                        if "bind(c)" in others and len(others) > 1:
                            continue  # a BIND(C) type is neither extensible nor abstract
                        for pos in range(0, k + 1) if acc != "none" else (0,):
                            yield ("attrlist", "type", mod_default, acc, upper, others, pos)
                for others in ((), ("save",)) if False else ((),):
                    for pos in (0, 1) if acc != "none" else (0,):
                        yield ("attrlist", "parameter", mod_default, acc, upper, ("parameter",), pos)


def run_attrlist_case(st: Stats, case):
    _, kind, mod_default, acc, upper, others, pos = case
    attrs = list(others)
    if acc != "none":
        attrs.insert(pos, acc.upper() if upper else acc)
    if upper:
        attrs = [a.upper() if not a.startswith("extends") else "EXTENDS(t0)" for a in attrs]
    a = "".join(", " + x for x in attrs)
    spec = []
    if mod_default != "none":
        spec.append(mod_default)
    spec += ["type :: t0", "  integer :: c0", "end type t0"]
    if kind == "type":
        spec += [f"type{a} :: e1", "  integer :: c1", "end type e1"]
    elif kind == "parameter":
        spec += [f"integer{a} :: e1 = 1"]
    else:
        spec += [f"integer{a} :: e1"]
    spec += ["integer :: after_1"]
    src = "\n".join(["module m", "implicit none"] + ["  " + l for l in spec] + ["end module m"]) + "\n"
    r = fordrun.build_fast({"src/m.f90": src}, DISPLAY_ALL)
    st.evaluations += 1
    st.transitions += 1
    inp = dict(source=src)
    stratum = "attrlist/" + kind
    feats = dict(kind=kind, mod_default=mod_default, attr=acc, upper=upper, others="+".join(others), pos=pos,
                 protected_with_access=bool(kind == "variable" and acc == "protected" and mod_default == "private"))
    st.nontrivial.add(core.digest(case))
    if r.error is not None or not r.project or not r.project.modules or "ERROR in file" in r.log or "Error parsing" in r.log:
        st.violation("ford-failed", stratum, feats, inp, repr(r.error) + r.log[-300:], "parses")
        st.stratum(stratum, 1)
        return
    m = r.project.modules[0]
    coll = m.types if kind == "type" else m.variables
    default_access = "private" if mod_default == "private" else "public"
    want = {"e1": expected(mod_default, acc, "none", "variable" if kind == "variable" else kind), "after_1": default_access, "t0": default_access}
    got = {e.name.lower(): e.permission for e in list(m.types) + list(m.variables)}
    bad = 0
    for k, w in want.items():
        g = got.get(k, "<missing>")
        if g != w:
            bad += 1
            st.violation("wrong-permission", stratum, dict(feats, name=k, expected=w, observed=g), inp, g, w)
    st.states.add(core.digest([case, sorted(got.items())]))
    st.stratum(stratum, bad)

# ---- submodules ------------------------------------------------------------

def run_submodule_case(st: Stats, case):
    _, parent_default, kinds = case
    spec, cont = [], []
    for n, kind in enumerate(kinds, 1):
        s, c = entity_lines(kind, n, "none")
        spec += s
        cont += c
    src = ["module pm", parent_default if parent_default != "none" else "", "integer :: pv", "end module pm",
           "submodule (pm) sm", "implicit none"] + spec + (["contains"] + cont if cont else []) + ["end submodule sm"]
    src = "\n".join(l for l in src if l) + "\n"
    r = fordrun.build_fast({"src/m.f90": src}, DISPLAY_ALL)
    st.evaluations += 1
    st.transitions += 1
    inp = dict(source=src)
    if r.error is not None or not r.project or not r.project.submodules or "ERROR in file" in r.log:
        st.violation("ford-failed", "submodule", {}, inp, repr(r.error) + r.log[-300:], "parses")
        st.stratum("submodule", 1)
        return
    sm = r.project.submodules[0]
    bad = 0
    got_all = []
    for n, kind in enumerate(kinds, 1):
        found = find_entity(sm, kind, n)
        got = found[0].permission if len(found) == 1 else f"<{len(found)} entities>"
        got_all.append(got)
        if got != "private":
            bad += 1
            st.violation("wrong-permission", "submodule", dict(kind=kind, parent_default=parent_default, expected="private", observed=got),
                         inp, got, "private")
    st.stratum("submodule", bad)
    st.states.add(core.digest([case, got_all]))
    st.nontrivial.add(core.digest(case))


IMPL_FORMS = {
    "module subroutine": ("module subroutine {n}(a)\ninteger :: a\nend subroutine {n}", "module subroutine {n}(a)\ninteger :: a\nend subroutine {n}"),
    "module function": ("module function {n}(a) result(r)\ninteger :: a, r\nend function {n}", "module function {n}(a) result(r)\ninteger :: a, r\nr = a\nend function {n}"),
    "module procedure": ("module subroutine {n}(a)\ninteger :: a\nend subroutine {n}", "module procedure {n}\nend procedure {n}"),
}


def run_submodule_impl_case(st: Stats, case):
    """separate module procedures: the interface in the ancestor module has the accessibility the module gives it; the
    implementation is an entity of the submodule (all of whose entities are private), in each of the three forms."""
    _, parent_default, access, forms = case
    names = [f"impl{k}" for k in range(len(forms))]
    ifc, impl = [], []
    for n, f in zip(names, forms):
        ifc += IMPL_FORMS[f][0].format(n=n).split("\n")
        impl += IMPL_FORMS[f][1].format(n=n).split("\n")
    acc = [f"{access} :: " + ", ".join(names)] if access != "none" else []
    src = (["module pm", "implicit none"] + ([parent_default] if parent_default != "none" else []) + acc + ["interface"] + ifc + ["end interface", "end module pm",
           "submodule (pm) sm", "implicit none", "integer :: helper_v", "contains"] + impl + ["subroutine helper()", "end subroutine helper", "end submodule sm"])
    src = "\n".join(src) + "\n"
    r = fordrun.build_fast({"src/m.f90": src}, DISPLAY_ALL)
    st.evaluations += 1
    st.transitions += 1
    inp = dict(source=src)
    stratum = "submodule-impl"
    st.nontrivial.add(core.digest(case))
    if r.error is not None or not r.project or not r.project.submodules or not r.project.modules or "ERROR in file" in r.log:
        st.violation("ford-failed", stratum, {}, inp, repr(r.error) + r.log[-300:], "parses")
        st.stratum(stratum, 1)
        return
    sm, pm = r.project.submodules[0], r.project.modules[0]
    want_ifc = access if access != "none" else ("private" if parent_default == "private" else "public")
    bad, got_all = 0, []
    impls = {p.name.lower(): p for p in list(sm.subroutines) + list(sm.functions) + list(getattr(sm, "modprocedures", []))
             + list(getattr(sm, "modsubroutines", [])) + list(getattr(sm, "modfunctions", []))}
    bodies = {p.name.lower(): p for i in pm.interfaces for p in ([i.procedure] if getattr(i, "procedure", None) is not None else list(getattr(i, "routines", [])))}
    for n, f in list(zip(names, forms)) + [("helper", "helper")]:
        for where, ent, want in (("submodule", impls.get(n), "private"),) + ((("module", bodies.get(n), want_ifc),) if f != "helper" else ()):
            got = ent.permission if ent is not None else "<missing>"
            got_all.append(got)
            if got != want:
                bad += 1
                st.violation("wrong-permission", stratum, dict(kind=f, where=where, parent_default=parent_default, access=access, expected=want, observed=got), inp, got, want)
    st.stratum(stratum, bad)
    st.states.add(core.digest([case, got_all]))


def gen_submodule_impls():
    for pd in ("none", "public", "private"):
        for access in ("none", "public", "private"):
            for k in range(1, 3):
                for forms in itertools.product(IMPL_FORMS, repeat=k):
                    yield ("submodule-impl", pd, access, list(forms))


def gen_submodules():
    for pd in ("none", "public", "private"):
        for k in MODULE_KINDS:
            yield ("submodule", pd, [k])
        for k1, k2 in itertools.permutations(MODULE_KINDS, 2):
            yield ("submodule", pd, [k1, k2])


def work(chunk):
    st = Stats()
    for case in chunk:
        if case[0] == "module":
            _, default, dpos, ents, ctx, stratum = case
            run_module_case(st, default, dpos, ents, ctx, stratum)
        elif case[0] == "type":
            run_type_case(st, case)
        elif case[0] == "attrlist":
            run_attrlist_case(st, case)
        elif case[0] == "submodule-impl":
            run_submodule_impl_case(st, case)
        else:
            run_submodule_case(st, case)
    return st


def all_cases(tier):
    if tier == "quick":
        cases = list(gen_single([0, 3, 4])) + list(gen_pairs([0])) + list(gen_types(False)) + list(gen_submodules()) + list(gen_submodule_impls()) + list(gen_attrlists(False))
    else:
        cases = list(gen_single([0, 1, 2, 3, 4])) + list(gen_pairs([0, 1, 2, 4])) + list(gen_types(True)) + list(gen_submodules()) + list(gen_submodule_impls()) + list(gen_attrlists(True))
    return cases


def replay(path):
    import json

    core.use_repo()
    rec = json.loads(open(path).read())
    src = rec["input"]["source"]
    r = fordrun.build_fast({"src/m.f90": src}, DISPLAY_ALL)
    print(src)
    print("observed previously:", rec["observed"], "expected:", rec["expected"], "features:", rec["features"])
    for m in r.project.modules + r.project.submodules:
        for coll in ("variables", "types", "subroutines", "functions", "interfaces", "absinterfaces", "modprocedures"):
            for e in getattr(m, coll, []):
                print(m.name, coll, e.name, e.permission)
    return 0


def main(tier, replay_path=None):
    if replay_path:
        return replay(replay_path)
    t0 = time.time()
    core.use_repo()
    cases = all_cases(tier)
    k = core.SEED % 7
    cases = cases[k:] + cases[:k]  # shard order only
    n = max(1, len(cases) // (core.WORKERS * 4))
    chunks = [cases[i:i + n] for i in range(0, len(cases), n)]
    total = Stats()
    for st in core.pmap(work, chunks):
        total.merge(st)
    return core.finish(
        PROP, tier, "model_checking", total, t0,
        rule=("full product: module default x position x declaration attribute x access statement x position x 8 module-level kinds "
              "(singles), all ordered pairs of different kinds over a reduced value set, "
              + ("3 embedding contexts, " if tier == "thorough" else "") +
              "types: module default x type attr/stmt x component default x binding default x component/binding/generic attributes; "
              "attribute lists: access attribute at every position among <= 2 other attributes (variables, parameters, types incl. extends/abstract/bind(c)), both letter cases; "
              "submodules: singles and ordered pairs. distinct_nontrivial = distinct legal configurations; states = distinct (configuration, observed permissions)"),
        assumptions=[
            "combinations that are illegal Fortran (access given twice, protected on non-variables, access attribute on procedures/interfaces) are not generated",
            "a variable that is both private and protected is expected to be 'private' (not accessible)",
            "'embedded in random programs' is sampling; replaced by 3 fixed embedding contexts (thorough tier)",
        ],
        bounds=dict(cases=len(cases)),
    )
