"""C09 - every internal link in the output resolves, and the output is relocatable.

Project shapes = full product of the cardinalities the templates and list-page
conditions depend on (source files, modules, programs, top-level procedures,
types, abstract interfaces, block data, namelists, submodules, generic
interfaces, static page depth) x option vectors with <= d deviations from the
defaults (incl_src, search, graph, proc_internals, display, sort, page_dir,
graph_maxnodes (graph rendered as table), hide_undoc, source, externalize,
max_frontpage_items ...).  Every URL on every page, in inline SVG and in the search
index must be relative, resolve to an existing file in the output tree and name
an existing id; no file may contain the absolute path of the output directory;
the moved tree is re-checked (thorough).
"""
from __future__ import annotations

import itertools
import shutil
import time

from mc import core, fordrun, projgen
from mc.core import Stats
from mc.explore import explore
from mc.site import Site, classify_link

PROP = "C09"

OPTION_SITES = [
    ("incl_src", [True, False]),
    ("search", [False, True]),
    ("graph", [False, True, "maxnodes1", "maxnodes2", "maxdepth1", "procparent", "coloured"]),
    ("proc_internals", [False, True]),
    ("display", [["public", "protected"], ["public", "protected", "private"], ["public"]]),
    ("sort", ["src", "alpha", "permission", "type-alpha"]),
    ("pages", [None, 0, 1, 2]),
    ("hide_undoc", [False, True]),
    ("source", [False, True]),
    ("externalize", [False, True]),
    ("max_frontpage_items", [10, 1]),
    # how the project addresses its output directory: default ./doc, through a `..` component, through a symlinked
    # directory, several levels deep
    ("outdir", ["default", "dotdot", "symlink", "nested"]),
    # non-Fortran files documented via extra_filetypes (they count as source files for the file list)
    ("extra_files", [False, True]),
    # the directory FORD is started from: the project directory, a directory directly below `/`, the project's parent
    ("cwd", ["project", "/tmp", "parent"]),
    # texts of the project file converted after all the comments (summary, author description) in a project whose comments carry Markdown footnotes
    ("front_texts", [False, True]),
]


def shapes(tier):
    out = []
    for nfiles, nmod, nprog, nproc, ntype, nabs, nblock, nnl in itertools.product((1, 2), (0, 1, 2), (0, 1, 2), (0, 1, 2), (0, 1, 2), (0, 1), (0, 1, 2), (0, 1)):
        if nmod + nprog + nproc == 0:
            continue
        if nfiles == 2 and nmod + nprog + nproc + nblock < 2:
            continue
        out.append(dict(nfiles=nfiles, nmod=nmod, nprog=nprog, nproc=nproc, ntype=ntype, nabs=nabs, nblock=nblock, nnl=nnl))
    return out


def option_base_shapes():
    """shapes on which the option deviations are explored (extremes of every cardinality + submodules/generics)."""
    S = []
    for nfiles, nmod, nprog, nproc in ((1, 1, 0, 0), (1, 0, 1, 0), (1, 0, 0, 1), (2, 2, 1, 2), (2, 1, 2, 1), (1, 2, 1, 1)):
        for rich in (0, 1, 2):
            S.append(dict(nfiles=nfiles, nmod=nmod, nprog=nprog, nproc=nproc, ntype=rich, nabs=min(rich, 1), nblock=rich, nnl=min(rich, 1),
                          nsub=min(rich, 2) if nmod else 0, ngen=rich, private_impls=(rich == 2)))
    return S


def build_and_check(st: Stats, shape, opts, pages, stratum, feats, move=False):
    o = dict(opts)
    extra = bool(o.pop("extra_files", False))
    front = bool(o.pop("front_texts", False))
    files = projgen.make_project(pages=pages, extra_files=extra, footnotes=front, **shape)
    if front:
        o.update(summary="A *short* summary of the project.", author="Some One", author_description="Writes **Fortran** and notes.")
    if extra:
        o["extra_filetypes"] = [dict(extension="sh", comment="#"), dict(extension="yml", comment="#")]
    if pages is not None:
        o["page_dir"] = "pages"
    root = None
    outdir = o.pop("outdir", "default")
    if outdir == "dotdot":
        o["output_dir"] = "cfg/../doc"
    elif outdir == "nested":
        o["output_dir"] = "build/out/doc"
    elif outdir == "symlink":
        import os
        root = fordrun.new_root()
        (root / "real").mkdir()
        os.symlink(root / "real", root / "lnk")
        o["output_dir"] = "lnk/doc"
    start = o.pop("cwd", "project")
    if start != "project" and root is None:
        root = fordrun.new_root()
    cwd = {"project": None, "/tmp": "/tmp", "parent": str(root.parent) if root else None}[start]
    r = fordrun.build(files, o, stage="write", proj_body="Project front page text.\n", root=root, cwd=cwd)
    st.evaluations += 1
    inp = dict(shape=shape, options={k: v for k, v in opts.items()}, pages=pages)
    try:
        if r.error is not None or r.stage_reached != "write":
            st.violation("ford-failed", stratum, feats, inp, (repr(r.error) + " " + r.log[-400:]).strip(), "site is written")
            st.stratum(stratum, 1)
            return
        site = Site(r.out)
        st.transitions += sum(len(p.links) for p in site.pages.values())
        probs = site.link_problems()
        bad = 0
        seen = set()
        for (page, tag, attr, url, prob) in probs:
            cls = classify_link(page, url, prob)
            if cls in seen:
                continue
            seen.add(cls)
            bad += 1
            st.violation("broken-link", stratum, dict(feats, link_class=cls, page=page.split("/")[0]), inp,
                         dict(page=page, tag=tag, attr=attr, url=url, problem=prob), "relative URL resolving to an existing file / id")
        abs_mentions = [f for f in site.mentions(str(r.out)) + site.mentions(str(r.root)) if not f.startswith("src/")]
        if abs_mentions:
            bad += 1
            st.violation("absolute-output-path-in-file", stratum, dict(feats, link_class="abs-path:" + abs_mentions[0].split("/")[0]), inp,
                         abs_mentions[:5], "no generated file contains the absolute output path")
        if move and not bad:
            dst = r.out.parent / "moved" / "elsewhere"
            dst.parent.mkdir(parents=True, exist_ok=True)
            shutil.move(str(r.out), str(dst))
            site2 = Site(dst)
            p2 = site2.link_problems()
            if p2:
                bad += 1
                st.violation("broken-after-move", stratum, dict(feats, link_class=classify_link(p2[0][0], p2[0][3], p2[0][4])), inp, list(p2[0]),
                             "links still resolve after moving the tree")
        st.states.add(core.digest(sorted(site.files)))
        st.nontrivial.add(core.digest([shape, sorted(opts.items(), key=str), pages]))
        st.stratum(stratum, bad)
        if len(st.samples) < 2 and opts:
            st.sample(dict(shape=shape, options=opts, pages=pages, n_pages=len(site.pages), n_links=sum(len(p.links) for p in site.pages.values())))
    finally:
        r.cleanup()


def work(chunk):
    st = Stats()
    for job in chunk:
        if job[0] == "shape":
            _, shape, incl_src = job
            build_and_check(st, shape, dict(incl_src=incl_src), None, "shape/" + ("src" if incl_src else "nosrc"),
                            dict(space="shape", deviations="incl_src" if not incl_src else "", **{k: v for k, v in shape.items()}))
        elif job[0] == "pair":
            # FORD's own defaults (search on) together with a page tree of every depth, with and without graphs
            _, shape, pages, graph = job
            opts = dict(search=True, **(dict(graph=True) if graph else {}))
            build_and_check(st, shape, opts, pages, "options/search+pages" + ("+graph" if graph else ""),
                            dict(space="options", deviations="search+pages" + ("+graph" if graph else ""), **{k: v for k, v in shape.items()}))
        else:
            _, shape, bound, move = job

            def run(ch):
                opts, pages, devs = {}, None, []
                for name, values in OPTION_SITES:
                    v = values[ch.choose(name, len(values))]
                    if v != values[0]:
                        devs.append(name)
                    if name == "pages":
                        pages = v
                    elif name == "graph":
                        if v:
                            opts["graph"] = True
                            extra = {"maxnodes1": dict(graph_maxnodes=1), "maxnodes2": dict(graph_maxnodes=2), "maxdepth1": dict(graph_maxdepth=1),
                                     "procparent": dict(show_proc_parent=True), "coloured": dict(coloured_edges=True)}.get(v, {})
                            opts.update(extra)
                    elif v != values[0]:
                        opts[name] = v
                return opts, pages, devs

            for ch, (opts, pages, devs) in explore(run, bound=bound):
                feats = dict(space="options", deviations="+".join(devs), **{k: v for k, v in shape.items()})
                build_and_check(st, shape, opts, pages, "options/" + ("+".join(devs) or "default"), feats, move=move)
    return st


def replay(path):
    import json

    core.use_repo()
    rec = json.loads(open(path).read())
    i = rec["input"]
    st = Stats()
    build_and_check(st, i["shape"], i["options"], i["pages"], rec["site"], rec["features"])
    for v in st.violations:
        print("REPRODUCED", v["clause"], v["features"].get("link_class"), v["observed"])
    return 1 if st.violations else 0


def main(tier, replay_path=None):
    if replay_path:
        return replay(replay_path)
    t0 = time.time()
    core.use_repo()
    jobs = []
    for s in shapes(tier):
        jobs.append(("shape", s, True))
        jobs.append(("shape", s, False))
    base = option_base_shapes()
    if tier == "quick":
        for s in base:
            jobs.append(("options", s, 1, False))
    else:
        for i, s in enumerate(base):
            jobs.append(("options", s, 2 if i % 3 == 2 else 1, True))
    for s in base[:: (3 if tier == "quick" else 1)]:
        for pages in (0, 1, 2):
            for graph in (False, True):
                jobs.append(("pair", s, pages, graph))
    k = core.SEED % 7
    jobs = jobs[k:] + jobs[:k]
    jobs.sort(key=lambda j: 0 if j[0] == "options" else 1)
    n = core.WORKERS * 6
    total = Stats()
    for st in core.pmap(work, [c for c in (jobs[i::n] for i in range(n)) if c]):
        total.merge(st)
    return core.finish(
        PROP, tier, "model_checking", total, t0,
        rule=("full product of cardinalities files{1,2} x modules{0,1,2} x programs{0,1,2} x procedures{0,1,2} x types{0,1,2} x abstract interfaces{0,1} x block data{0,1,2} x "
              "namelists{0,1}, each with incl_src on and off; plus 18 base shapes (incl. submodules, generic interfaces) x every option vector with <= "
              + ("1 deviation" if tier == "quick" else "1 deviation (<= 2 on every third shape), tree moved and re-checked") +
              f" over {len(OPTION_SITES)} option sites; plus search on x page tree depth {{0,1,2}} x graphs {{off,on}} on "
              + ("6" if tier == "quick" else "18") + " base shapes. transitions = links resolved; distinct_nontrivial = distinct (shape, options)"),
        assumptions=[
            "project_url empty (relative mode), as the property's quantifier states",
            "graphviz `dot` is stubbed in this check (DOT/SVG link targets are C13's subject); http(s)/mailto URLs are not followed",
        ],
        bounds=dict(jobs=len(jobs)),
    )
