"""C03 - each doc comment lands on its entity, complete, once and in order.

(a) attachment: a skeleton program with ~30 documentable statements of every
    entity kind; every entity carries a unique tracer sentence.  For every pair
    of source-adjacent documentable statements: marker style of each (after /
    pre / alt-after / alt-pre) x inline or own-line placement x separator between
    them (nothing, blank line, ordinary comment, both) x marker configuration
    (defaults + alternative marker characters incl. multi-character and
    regex-special ones).  Oracle: entity.doc_list words == its tracer words.
(b) bodies: all sequences of <= N blocks (paragraphs, lists, code blocks, the
    5 admonition kinds terminated in every documented way, unterminated,
    consecutive, with text on the marker line / after the end marker) through
    the real MetaMarkdown; the visible text must contain every tracer word
    exactly once and in order.
(c) metadata: leading `key: value` lines set entity.meta and are not rendered.
"""
from __future__ import annotations

import html.parser
import itertools
import re
import time

from mc import canon, core, fordrun
from mc.core import Stats

PROP = "C03"

# ---------------------------------------------------------------------------
# (a) attachment
# ---------------------------------------------------------------------------
# (key, statement, indent, inline allowed) ; key None = not documentable here
SKELETON = [
    ("mod", "module m", 0),
    (None, "use iso_fortran_env", 1),
    (None, "implicit none", 1),
    ("v1", "integer :: v1", 1),
    ("v23", "real :: v2, v3", 1),
    ("t1", "type :: t1", 1),
    ("c1", "integer :: c1", 2),
    ("c2", "real, allocatable :: c2(:)", 2),
    (None, "contains", 1),
    ("b1", "procedure :: b1", 2),
    ("b23", "procedure :: b2, b3", 2),
    ("g1", "generic :: g1 => b1, b2", 2),
    ("f1", "final :: f1", 2),
    (None, "end type t1", 1),
    (None, "type, extends(t1) :: t1x", 1),
    (None, "end type t1x", 1),
    ("gi", "interface gi", 1),
    ("gimp", "module procedure s1", 2),
    (None, "end interface gi", 1),
    (None, "abstract interface", 1),
    ("ai", "subroutine ai(aa)", 2),
    ("aa", "integer :: aa", 3),
    (None, "end subroutine ai", 2),
    (None, "end interface", 1),
    (None, "interface", 1),
    ("ei", "function ei(ex)", 2),
    ("ex", "integer :: ex", 3),
    ("eir", "integer :: ei", 3),
    (None, "end function ei", 2),
    (None, "end interface", 1),
    ("en", "enum, bind(c)", 1),
    ("e1", "enumerator :: e1 = 1", 2),
    ("e2", "enumerator :: e2", 2),
    (None, "end enum", 1),
    ("cm1", "integer :: cm1", 1),
    ("cb", "common /cb/ cm1", 1),
    ("cm2", "integer :: cm2, cm3, cm4", 1),
    ("cbb", "common /cbb/ cm2", 1),
    ("cb34", "common /cc1/ cm3 /cc2/ cm4", 1),
    (None, "contains", 0),
    ("s1", "subroutine s1(a1)", 1),
    ("a1", "integer, intent(in) :: a1", 2),
    ("nl", "namelist /nl/ a1", 2),
    ("loc1", "integer :: loc1", 2),
    (None, "loc1 = a1", 2),
    (None, "end subroutine s1", 1),
    ("fn1", "function fn1(a2) result(r1)", 1),
    ("a2", "integer :: a2", 2),
    ("r1", "integer :: r1", 2),
    (None, "r1 = a2", 2),
    (None, "contains", 1),
    ("in1", "subroutine in1()", 2),
    (None, "end subroutine in1", 2),
    (None, "end function fn1", 1),
    (None, "subroutine b1(self)", 1), (None, "class(t1) :: self", 2), (None, "end subroutine b1", 1),
    (None, "subroutine b2(self, k)", 1), (None, "class(t1) :: self", 2), (None, "integer :: k", 2), (None, "end subroutine b2", 1),
    (None, "subroutine b3(self, x)", 1), (None, "class(t1) :: self", 2), (None, "real :: x", 2), (None, "end subroutine b3", 1),
    (None, "subroutine f1(self)", 1), (None, "type(t1) :: self", 2), (None, "end subroutine f1", 1),
    (None, "end module m", 0),
    ("pr", "program pr", 0),
    ("pv", "integer :: pv", 1),
    (None, "pv = 1", 1),
    (None, "end program pr", 0),
    ("bd", "block data bd", 0),
    ("bdv", "integer :: bdv", 1),
    ("bdc", "common /cb2/ bdv", 1),
    (None, "end block data bd", 0),
    ("xs", "subroutine xs(xa)", 0),
    ("xa", "real :: xa", 1),
    (None, "end subroutine xs", 0),
]
KEYS = [k for k, *_ in SKELETON if k]

# where to find the doc of each key in the canonical records: list of (kind, name, role) any of which may carry it
WHERE = {
    "mod": [("module", "m")], "v1": [("variable", "v1")], "v23": [("variable", "v2"), ("variable", "v3")],
    "t1": [("type", "t1")], "c1": [("variable", "c1")], "c2": [("variable", "c2")], "b1": [("binding", "b1")],
    "b23": [("binding", "b2"), ("binding", "b3")], "g1": [("binding", "g1")], "f1": [("final", "f1")],
    "gi": [("interface", "gi")], "gimp": [("modprocref", "s1")], "ai": [("proc", "ai"), ("absinterface", "ai")],
    "aa": [("variable", "aa")], "ei": [("proc", "ei"), ("interface", "ei")], "ex": [("variable", "ex")],
    "eir": [("variable", "ei")], "en": [("enum", "#0")], "e1": [("enumerator", "e1")], "e2": [("enumerator", "e2")],
    "cm1": [("variable", "cm1")], "cb": [("common", "cb")], "cm2": [("variable", "cm2"), ("variable", "cm3"), ("variable", "cm4")],
    "cbb": [("common", "cbb")], "cb34": [("common", "cc1"), ("common", "cc2")], "s1": [("proc", "s1")], "a1": [("variable", "a1")],
    "nl": [("namelist", "nl")], "loc1": [("variable", "loc1")], "fn1": [("proc", "fn1")], "a2": [("variable", "a2")],
    "r1": [("variable", "r1")], "in1": [("proc", "in1")], "pr": [("program", "pr")], "pv": [("variable", "pv")],
    "bd": [("blockdata", "bd")], "bdv": [("variable", "bdv")], "bdc": [("common", "cb2")], "xs": [("proc", "xs")],
    "xa": [("variable", "xa")],
}
# statements that declare several names / where FORD documents only some: "at least one, nothing outside"
LENIENT_ANY = {"b23", "v23", "ai", "ei", "cm2", "cb34"}

STYLES = ["after", "pre", "alt-after", "alt-pre"]
MARKSETS = [
    dict(docmark="!", predocmark=">", docmark_alt="*", predocmark_alt="|"),
    dict(docmark="<", predocmark="!", docmark_alt="#", predocmark_alt="@"),
    dict(docmark="!!", predocmark="!>", docmark_alt="**", predocmark_alt="||"),
    dict(docmark="^", predocmark="$", docmark_alt=".", predocmark_alt="?"),
]


def words(key):
    return [f"w{key}a", f"w{key}b", f"w{key}c"]


def doc_lines(key, style, marks, indent):
    """own-line doc comment lines for `key` in `style` (two lines: 'a b' / 'c')."""
    w = words(key)
    pad = "  " * indent
    m = {"after": marks["docmark"], "pre": marks["predocmark"], "alt-after": marks["docmark_alt"], "alt-pre": marks["predocmark_alt"]}[style]
    if style in ("after", "pre"):
        return [f"{pad}!{m} {w[0]} {w[1]}", f"{pad}!{m} {w[2]}"]
    return [f"{pad}!{m} {w[0]} {w[1]}", f"{pad}! {w[2]}"]


def render(styles, marks, inline=(), seps=None, gaps=None):
    """styles: {key: style}; inline: keys whose first doc line is placed on the statement line (after style only);
    seps: {key: separator name} placed between the documentation of `key` and the next statement / its pre-docs."""
    seps = seps or {}
    gaps = gaps or {}

    def gapped(key, lines, pad):
        """the doc comment of `key` with a blank / ordinary comment line between its two lines"""
        g = gaps.get(key)
        if not g:
            return lines
        mid = {"blank": [""], "comment": [f"{pad}! ordinary comment zz{key}"], "both": ["", f"{pad}! ordinary comment zz{key}"]}[g]
        return lines[:1] + mid + lines[1:]

    out = []
    for i, (key, stmt, indent) in enumerate(SKELETON):
        pad = "  " * indent
        st = styles.get(key) if key else None
        if st in ("pre", "alt-pre"):
            out += gapped(key, doc_lines(key, st, marks, indent), pad)
        if st == "after" and key in inline:
            w = words(key)
            out += gapped(key, [f"{pad}{stmt} !{marks['docmark']} {w[0]} {w[1]}", f"{pad}!{marks['docmark']} {w[2]}"], pad)
        else:
            out.append(pad + stmt)
            if st in ("after", "alt-after"):
                out += gapped(key, doc_lines(key, st, marks, indent), pad)
        sep = seps.get(key)
        if sep:
            blank_first = st == "alt-after"
            c = f"{pad}! ordinary comment zz{key}"
            if sep == "blank":
                out.append("")
            elif sep == "comment":
                out += ([""] if blank_first else []) + [c]
            elif sep == "both":
                out += ["", c, ""]
    return "\n".join(out) + "\n"


def collect_docs(project):
    """{(kind, name): doc string} from the canonical tree, plus module-procedure references."""
    docs = {}
    for r in canon.tree(project):
        if "doc" in r:
            docs.setdefault((r["kind"], r["name"]), []).append(r["doc"])
    for m in project.modules:
        for i in m.interfaces:
            for mp in getattr(i, "modprocs", []):
                docs.setdefault(("modprocref", mp.name.lower()), []).append(" ".join(" ".join(mp.doc_list).split()))
    return docs


def check_attachment(st: Stats, styles, marks, inline, seps, stratum, feats, gaps=None, include=False):
    src = render(styles, marks, inline, seps, gaps)
    opts = dict(display=["public", "private", "protected"], proc_internals=True, **marks)
    files = {"src/m.f90": src}
    if include:
        # the specification part of the module (with all its comments) is moved into an include file
        L = src.rstrip("\n").split("\n")
        a = L.index("  implicit none") + 1
        b = L.index("contains")
        files = {"src/m.f90": "\n".join(L[:a] + ["  include 'spec.inc'"] + L[b:]) + "\n", "src/spec.inc": "\n".join(L[a:b]) + "\n"}
        src = "\n".join(f"----- {k}\n{v}" for k, v in files.items())
    r = fordrun.build_fast(files, opts)
    st.evaluations += 1
    st.transitions += 1
    inp = dict(styles=styles, marks=marks, inline=sorted(inline), seps=seps, gaps=gaps or {}, source=src)
    if r.error is not None or not r.project or not r.project.files or "ERROR in file" in r.log or "Error parsing" in r.log:
        st.violation("ford-failed", stratum, feats, inp, repr(r.error) + r.log[-300:], "parses")
        st.stratum(stratum, 1)
        return
    docs = collect_docs(r.project)
    st.states.add(core.digest(sorted((k, tuple(v)) for k, v in docs.items())))
    bad = 0
    claimed = {}
    for key in KEYS:
        want = " ".join(words(key)) if key in styles else ""
        places = WHERE[key]
        got = [d for p in places for d in docs.get(p, [])]
        if key in LENIENT_ANY:
            ok = (want in got if want else all(g == "" for g in got)) and all(g in ("", want) for g in got)
        else:
            ok = bool(got) and all(g == want for g in got) if want else all(g == "" for g in got)
        if not ok:
            bad += 1
            f = dict(feats, entity=key, entity_style=styles.get(key, "none"),
                     got_foreign=bool(any(g and g != want for g in got)), lost=bool(want and want not in got))
            st.violation("doc-misattached" if f["got_foreign"] else "doc-lost", stratum, f, inp, got, want)
        for p in places:
            claimed[p] = True
    # nothing foreign anywhere else (ordinary comments, neighbours' docs)
    for k, ds in docs.items():
        if k in claimed:
            continue
        for d in ds:
            if d and re.search(r"\bw\w+[abc]\b|zz\w+|ordinary", d):
                bad += 1
                st.violation("doc-on-wrong-entity", stratum, dict(feats, entity=f"{k[0]}:{k[1]}"), inp, d, "")
    for k, ds in docs.items():
        for d in ds:
            if "ordinary" in d or "zz" in d:
                bad += 1
                st.violation("ordinary-comment-in-doc", stratum, dict(feats, entity=f"{k[0]}:{k[1]}"), inp, d, "no ordinary comment text")
    st.stratum(stratum, bad)


def attach_cases(tier):
    doc_keys = KEYS
    adj = list(zip(doc_keys, doc_keys[1:]))
    # 0: everything documented in each single style
    for s in STYLES:
        for mi in range(len(MARKSETS)):
            yield ("all", s, mi, None, None, None, None)
            yield ("all-include", s, mi, None, None, None, None)
    marksets = range(len(MARKSETS)) if tier == "thorough" else (0,)
    seps = [None, "blank", "comment", "both"]
    for (a, b) in adj:
        for sa, sb in itertools.product(STYLES, STYLES):
            for mi in marksets:
                for sep in seps if tier == "thorough" else (None, "comment"):
                    for inl in (False, True) if sa == "after" else (False,):
                        yield ("pair", a, b, sa, sb, mi, (sep, inl))
    # singles: only one entity documented (its neighbours must stay empty)
    for k in doc_keys:
        for s in STYLES:
            yield ("single", k, s, 0, None, None, None)
    # gaps: a blank / ordinary comment line inside one following-style comment (FORD keeps the comment together),
    # for every entity x marker configuration x inline/own-line first line
    for k in doc_keys:
        for mi in range(len(MARKSETS)):
            for g in ("blank", "comment", "both"):
                for inl in (False, True):
                    yield ("gap", k, "after", mi, g, inl, None)


def run_attach(st: Stats, case):
    if case[0] == "all":
        _, s, mi, *_ = case
        styles = {k: s for k in KEYS}
        check_attachment(st, styles, MARKSETS[mi], (), {}, f"attach/all/{s}", dict(space="all", style=s, markset=mi, pair="", sep="", inline=False))
    elif case[0] == "all-include":
        _, s, mi, *_ = case
        styles = {k: s for k in KEYS}
        check_attachment(st, styles, MARKSETS[mi], (), {}, f"attach/all-include/{s}", dict(space="all-include", style=s, markset=mi, pair="", sep="", inline=False), include=True)
    elif case[0] == "gap":
        _, k, s, mi, g, inl, _ = case
        styles = {x: "after" for x in KEYS}
        check_attachment(st, styles, MARKSETS[mi], (k,) if inl else (), {}, f"attach/gap/{g}",
                         dict(space="gap", style=s, markset=mi, pair=k, sep=g, inline=inl), gaps={k: g})
    elif case[0] == "single":
        _, k, s, mi, *_ = case
        check_attachment(st, {k: s}, MARKSETS[mi], (), {}, f"attach/single/{s}", dict(space="single", style=s, markset=mi, pair=k, sep="", inline=False))
    else:
        _, a, b, sa, sb, mi, (sep, inl) = case
        styles = {k: "after" for k in KEYS}
        styles[a], styles[b] = sa, sb
        check_attachment(st, styles, MARKSETS[mi], (a,) if inl else (), {a: sep} if sep else {}, f"attach/pair/{sa}+{sb}",
                         dict(space="pair", style=f"{sa}+{sb}", markset=mi, pair=f"{a}+{b}", sep=sep or "", inline=inl))
    st.nontrivial.add(core.digest(case))


# ---------------------------------------------------------------------------
# (b) doc bodies
# ---------------------------------------------------------------------------
def B(n):
    """block alphabet; every block carries tracer words t<n>x."""
    t = lambda i: f"t{n}{'abcdefgh'[i]}"  # noqa
    return {
        "para": [f"{t(0)} {t(1)}"],
        "para2": [f"{t(0)} {t(1)}", f"{t(2)} {t(3)}"],
        "bullets": [f"- {t(0)}", f"- {t(1)} {t(2)}"],
        "numbered": [f"1. {t(0)}", f"2. {t(1)}"],
        "code": [f"    {t(0)} = {t(1)}"],
        "fenced": ["```", f"{t(0)} = {t(1)}", "```"],
        "note-end": ["@note", f"{t(0)} {t(1)}", "@endnote"],
        "note-blank": ["@note", f"{t(0)} {t(1)}"],
        "note-inline": [f"@note {t(0)} {t(1)}", f"{t(2)}", "@endnote"],
        "warning-mixed": ["@Warning", f"{t(0)}", "@endWARNING"],
        "todo": [f"@todo {t(0)}", f"{t(1)} @endtodo"],
        "bug-posttext": ["@bug", f"{t(0)}", f"@endbug {t(1)} {t(2)}"],
        "bug-posttext-next": ["@bug", f"{t(0)}", f"@endbug {t(1)}", f"{t(2)}"],
        "history-midend": ["@history", f"{t(0)} {t(1)} @endhistory {t(2)}"],
        "note-in-list": [f"- {t(0)}", "", f"    @note {t(1)}", f"    {t(2)}", "    @endnote"],
        "note-2para": ["@note", f"{t(0)}", "", f"{t(1)}", "@endnote"],
        "two-notes": [f"@note {t(0)}", f"@warning {t(1)}", "@endwarning"],
        # text in front of a start marker on the same line (an end marker without / not matching a start marker is rejected by
        # FORD on purpose, with a message quoting the lines: not generated)
        "text-before-note": [f"{t(0)} {t(1)} @note {t(2)}", "@endnote"],
        "text-before-note-open": [f"{t(0)} @warning {t(1)}", f"{t(2)}"],
    }


BLOCK_KEYS = list(B(0).keys())
NEEDS_BLANK_AFTER = {"note-blank"}


class TextOf(html.parser.HTMLParser):
    def __init__(self):
        super().__init__()
        self.out = []

    def handle_data(self, d):
        self.out.append(d)


def visible_words(htmltext):
    p = TextOf()
    p.feed(htmltext)
    return re.findall(r"\bt\d[a-h]\b", " ".join(p.out))


_MD = {}


def md():
    if "md" not in _MD:
        from ford._markdown import MetaMarkdown

        _MD["md"] = MetaMarkdown()
    return _MD["md"]


def run_body(st: Stats, seq):
    lines, want = [], []
    for n, k in enumerate(seq):
        blk = B(n)[k]
        lines += blk + [""]
        want += re.findall(r"\bt\d[a-h]\b", " ".join(blk))
    text = "\n".join(lines)
    st.evaluations += 1
    st.transitions += 1
    stratum = "body"
    inp = dict(blocks=list(seq), text=text)
    feats = dict(blocks="+".join(seq), last=seq[-1], n=len(seq))
    st.nontrivial.add(core.digest(seq))
    try:
        out = md().reset().convert(text)
    except Exception as e:  # noqa
        st.violation("markdown-failed", stratum, feats, inp, f"{type(e).__name__}: {str(e)[:200]}", "converts")
        st.stratum(stratum, 1)
        return
    got = visible_words(out)
    st.states.add(core.digest(got))
    if got != want:
        lost = [w for w in want if w not in got]
        dup = sorted({w for w in got if got.count(w) > 1})
        clause = "word-lost" if lost else ("word-duplicated" if dup else "word-order")
        st.violation(clause, stratum, dict(feats, lost=",".join(lost), dup=",".join(dup)), inp, got, want)
        st.stratum(stratum, 1)
    else:
        st.stratum(stratum, 0)
        if len(st.samples) < 1 and len(seq) == 3:
            st.sample(dict(blocks=list(seq), text=text, html=out[:600]))


# ---------------------------------------------------------------------------
# (c) metadata
# ---------------------------------------------------------------------------
META_KEYS = [("author", "Some One", "author"), ("version", "1.2", "version"), ("since", "2020", "since"),
             ("category", "tools", "category"), ("deprecated", "true", "deprecated"), ("display", "private", "display"),
             ("summary", "short summary text", "summary"), ("graph", "false", "graph"), ("license", "by", "license"),
             ("date", "today", "date"), ("proc_internals", "true", "proc_internals"), ("source", "true", "source"), ("num_lines", "5", None)]
META_TARGETS = ["mod", "t1", "s1", "fn1", "v1", "gi", "pr", "c1", "b1", "a1", "v23", "e1", "xs", "xa", "bd", "in1"]


def run_meta(st: Stats, case):
    key, (mk, mv, attr), colon_text = case
    marks = MARKSETS[0]
    w = words(key)
    src_lines = []
    for (k, stmt, indent) in SKELETON:
        pad = "  " * indent
        src_lines.append(pad + stmt)
        if k == key:
            if colon_text:
                src_lines += [f"{pad}!! {w[0]}: {w[1]} {w[2]}"]
            else:
                src_lines += [f"{pad}!! {mk}: {mv}", f"{pad}!!", f"{pad}!! {w[0]} {w[1]}", f"{pad}!! {w[2]}"]
    src = "\n".join(src_lines) + "\n"
    r = fordrun.build_fast({"src/m.f90": src}, dict(display=["public", "private", "protected"], proc_internals=True))
    st.evaluations += 1
    st.transitions += 1
    stratum = "meta/colon-text" if colon_text else "meta/key"
    inp = dict(entity=key, meta=[mk, mv], colon_text=colon_text, source=src)
    feats = dict(entity=key, metakey=mk, colon_text=colon_text)
    st.nontrivial.add(core.digest([key, mk, colon_text]))
    if r.error is not None or not r.project or not r.project.files or "ERROR in file" in r.log or "Error parsing" in r.log:
        st.violation("ford-failed", stratum, feats, inp, repr(r.error) + r.log[-300:], "parses")
        st.stratum(stratum, 1)
        return
    docs = collect_docs(r.project)
    got = [d for p in WHERE[key] for d in docs.get(p, [])]
    if colon_text:
        want = f"{w[0]}: {w[1]} {w[2]}"
        ok = got and all(g == want for g in got)
        if not ok:
            st.violation("first-line-with-colon-not-rendered", stratum, feats, inp, got, want)
    else:
        want = " ".join(w)
        ok = got and all(g == want for g in got)
        if not ok:
            st.violation("metadata-line-shown-or-doc-lost", stratum, feats, inp, got, want)
        # the metadata value must be set on the entity
        ents = find_entity(r.project, key)
        for ent in (ents if isinstance(ents, list) else [ents]):
            if ent is None or not attr:
                continue
            val = getattr(ent.meta, attr, None)
            sval = " ".join(val) if isinstance(val, list) else str(val)
            if mv.lower() not in sval.lower():
                ok = False
                st.violation("metadata-not-set", stratum, dict(feats, on=ent.name), inp, sval, mv)
            elif mk == "summary":
                # the summary given as metadata is what list pages show: converted like any documentation text, its words kept
                try:
                    ent.markdown(md())
                    shown = " ".join(re.sub(r"<[^>]*>", " ", str(ent.meta.summary)).replace("Read more&hellip;", " ").split())
                except Exception as e:  # noqa
                    shown = f"<{type(e).__name__}: {e}>"
                if shown != mv:
                    ok = False
                    st.violation("metadata-not-set", stratum, dict(feats, on=ent.name, rendered=True), inp, shown[:80], mv)
    st.stratum(stratum, 0 if ok else 1)


def run_firstblock(st: Stats, case):
    """an entity's comment that STARTS with block `kind` (no metadata in front): after metadata splitting and Markdown
    conversion the entity's documentation shows every tracer word once, in order."""
    key, kind, meta_first = case
    blk = B(7)[kind]
    want = re.findall(r"\bt\d[a-h]\b", " ".join(blk))
    src_lines = []
    for (k, stmt, indent) in SKELETON:
        pad = "  " * indent
        src_lines.append(pad + stmt)
        if k == key:
            if meta_first:
                src_lines += [f"{pad}!! author: Some One", f"{pad}!!"]
            src_lines += [f"{pad}!! {l}".rstrip() if l.strip() else f"{pad}!!" for l in blk]
    src = "\n".join(src_lines) + "\n"
    r = fordrun.build({"src/m.f90": src}, dict(display=["public", "private", "protected"], proc_internals=True), stage="markdown")
    st.evaluations += 1
    st.transitions += 1
    stratum = "first-block" + ("/after-metadata" if meta_first else "")
    inp = dict(entity=key, block=kind, meta_first=meta_first, source=src)
    feats = dict(entity=key, block=kind, meta_first=meta_first)
    st.nontrivial.add(core.digest([key, kind, meta_first]))
    try:
        if r.error is not None or r.stage_reached != "markdown":
            st.violation("ford-failed", stratum, feats, inp, repr(r.error) + r.log[-300:], "documentation converted")
            st.stratum(stratum, 1)
            return
        ents = find_entity(r.project, key)
        bad = 0
        for ent in (ents if isinstance(ents, list) else [ents]):
            if ent is None:
                continue
            got = visible_words(ent.doc or "")
            st.states.add(core.digest([kind, got]))
            if got != want:
                bad += 1
                lost = [w for w in want if w not in got]
                st.violation("word-lost" if lost else "word-order-or-duplicate", stratum, dict(feats, lost=",".join(lost)), inp, got, want)
        st.stratum(stratum, bad)
    finally:
        r.cleanup()


# ---------------------------------------------------------------------------
# (d) rendered pages
# ---------------------------------------------------------------------------
RENDER_KEYS = ["mod", "t1", "s1", "fn1", "v1", "gi", "pr", "c1", "b1", "a1", "e1", "xs", "xa", "bd", "in1"]


def rwords(key):
    return [f"zq{key}{c}" for c in "abcdefg"]


def run_rendered(st: Stats, special):
    """every entity carries a comment of several paragraphs and a list (the `special` one also a Markdown footnote);
    on the page FORD names as the entity's own (its URL), all words of the comment appear, in order, the words after the
    first paragraph exactly once, and no word of another entity's footnote."""
    from mc.site import Site

    src_lines = []
    for (k, stmt, indent) in SKELETON:
        pad = "  " * indent
        src_lines.append(pad + stmt)
        if k in RENDER_KEYS:
            w = rwords(k)
            doc = [f"{w[0]} {w[1]}", "", f"{w[2]} {w[3]}" + ("[^1]" if k == special else ""), "", f"- {w[4]}", f"- {w[5]}"]
            if k == special:
                doc += ["", f"[^1]: {w[6]}"]
            src_lines += [f"{pad}!! {l}".rstrip() for l in doc]
    src = "\n".join(src_lines) + "\n"
    r = fordrun.build({"src/m.f90": src}, dict(display=["public", "private", "protected"], proc_internals=True, incl_src=False), stage="write")
    st.evaluations += 1
    stratum = "rendered"
    inp = dict(special=special, source=src, rendered=True)
    st.nontrivial.add(core.digest(["rendered", special]))
    try:
        if r.error is not None or r.stage_reached != "write":
            st.violation("ford-failed", stratum, dict(entity=special), inp, repr(r.error) + r.log[-300:], "site is written")
            st.stratum(stratum, 1)
            return
        site = Site(r.out)
        bad = 0
        foreign = rwords(special)[6]
        for key in RENDER_KEYS:
            ents = find_entity(r.project, key)
            ent = ents[0] if isinstance(ents, list) else ents
            if ent is None:
                continue
            url = ent.get_url()
            st.transitions += 1
            feats = dict(entity=key, special=special, is_special=(key == special))
            if not url:
                continue
            page = site.pages.get(url.split("#")[0])
            if page is None:
                bad += 1
                st.violation("entity-page-missing", stratum, feats, inp, url, "the page of the entity's URL exists")
                continue
            want = rwords(key)[:6] + ([rwords(key)[6]] if key == special else [])
            got = re.findall(rf"\bzq{key}[a-g]\b", page.text)
            # in order (as a subsequence), later paragraphs exactly once
            it = iter(got)
            in_order = all(any(x == w for x in it) for w in want)
            later_once = key == "a1" or all(got.count(w) == 1 for w in want[2:])  # (a1 is also a member of the namelist shown on the same page)
            if not in_order or not later_once:
                bad += 1
                lost = [w for w in want if w not in got]
                st.violation("rendered-doc-incomplete" if lost else "rendered-doc-duplicated-or-reordered", stratum, dict(feats, lost=",".join(lost)), inp,
                             dict(page=url, words=got), want)
            if key != special and foreign in page.text and not _shares_page(r.project, key, special, url):
                bad += 1
                st.violation("doc-on-wrong-entity", stratum, feats, inp, dict(page=url, foreign_word=foreign), "no text of another entity's footnote")
        st.states.add(core.digest([special, bad]))
        st.stratum(stratum, bad)
    finally:
        r.cleanup()


HOSTED = ["s1a", "b1a", "f1a", "s1", "b1", "f1"]
HOSTED_SRC = """module m
  implicit none
  private
  public :: t1, gi
  type :: t1
    integer :: c1
  contains
    procedure :: b1
    final :: f1
  end type t1
  interface gi
    module procedure s1
  end interface gi
contains
  subroutine s1(a1)
{s1}
    integer, intent(in) :: a1
{s1a}
  end subroutine s1
  subroutine b1(self)
{b1}
    class(t1) :: self
{b1a}
  end subroutine b1
  subroutine f1(self)
{f1}
    type(t1) :: self
{f1a}
  end subroutine f1
end module m
"""


def run_hosted(st: Stats, case):
    """private procedures that have no page of their own but are shown on another entity's page (specific procedure of a
    public generic interface, procedure behind a public binding, final procedure): when any word of the comment of such a
    procedure or of its dummy argument is rendered, the whole comment is rendered, in order, on one page of the site."""
    from mc.site import Site

    special, display = case
    docs = {}
    for k in HOSTED:
        w = rwords(k)
        doc = [f"{w[0]} {w[1]}", "", f"{w[2]} {w[3]}"] + (["", f"- {w[4]}", f"- {w[5]}"] if k == special else [])
        docs[k] = "\n".join(f"    !! {l}".rstrip() for l in doc)
    src = HOSTED_SRC.format(**docs)
    r = fordrun.build({"src/m.f90": src}, dict(display=display, incl_src=False), stage="write")
    st.evaluations += 1
    stratum = "rendered-hosted"
    inp = dict(special=special, display=display, source=src, hosted=True)
    st.nontrivial.add(core.digest(["hosted", special, display]))
    try:
        if r.error is not None or r.stage_reached != "write":
            st.violation("ford-failed", stratum, dict(entity=special), inp, repr(r.error) + r.log[-300:], "site is written")
            st.stratum(stratum, 1)
            return
        site = Site(r.out)
        bad = 0
        for k in HOSTED:
            st.transitions += 1
            want = rwords(k)[: 6 if k == special else 4]
            shown = {name: re.findall(rf"\bzq{k}[a-g]\b", page.text) for name, page in site.pages.items()}
            shown = {n: g for n, g in shown.items() if g}
            if not shown:
                continue  # not rendered at all: nothing is claimed for an entity that is not displayed
            whole = [n for n, g in shown.items() if (lambda it: all(any(x == w for x in it) for w in want))(iter(g))]
            if not whole:
                bad += 1
                st.violation("rendered-doc-incomplete", stratum, dict(entity=k, special=special, is_special=(k == special), display=",".join(display)), inp,
                             {n: g for n, g in sorted(shown.items())[:4]}, want)
        st.states.add(core.digest([special, display, bad]))
        st.stratum(stratum, bad)
    finally:
        r.cleanup()


def _shares_page(project, key, special, url):
    """the special entity is legitimately shown on this page too (it lives on it or is summarised there)"""
    ents = find_entity(project, special)
    ent = ents[0] if isinstance(ents, list) else ents
    if ent is None:
        return False
    page = url.split("#")[0]
    chain = [ent] + list(getattr(ent, "hierarchy", []) or [])
    urls = {(e.get_url() or "").split("#")[0] for e in chain if hasattr(e, "get_url")}
    return page in urls


def find_entity(project, key):
    m = project.modules[0]
    t = m.types[0] if m.types else None
    try:
        return {
            "mod": m, "t1": t, "s1": [p for p in m.subroutines if p.name == "s1"][0], "fn1": m.functions[0],
            "v1": [v for v in m.variables if v.name == "v1"][0], "gi": [i for i in m.interfaces if i.name == "gi"][0],
            "pr": project.programs[0], "c1": [v for v in t.variables if v.name == "c1"][0],
            "b1": [b for b in t.boundprocs if b.name == "b1"][0],
            "a1": [p for p in m.subroutines if p.name == "s1"][0].args[0],
            # one statement declaring several names: the metadata applies to each of them
            "v23": [v for v in m.variables if v.name in ("v2", "v3")],
            "b23": [b for b in t.boundprocs if b.name in ("b2", "b3")],
            "e1": [v for e in m.enums for v in e.variables if v.name == "e1"][0],
            "xs": [p for p in project.procedures if p.name == "xs"][0],
            "xa": [p for p in project.procedures if p.name == "xs"][0].args[0],
            "bd": project.blockdata[0],
            "in1": [p for p in m.functions[0].subroutines if p.name == "in1"][0],
        }[key]
    except Exception:  # noqa
        return None


def gen_cases(tier):
    for c in attach_cases(tier):
        yield ("attach", c)
    nmax = 3 if tier == "quick" else 4
    for n in range(1, nmax + 1):
        for seq in itertools.product(BLOCK_KEYS, repeat=n):
            yield ("body", seq)
    for key in META_TARGETS:
        for mk in META_KEYS:
            yield ("meta", (key, mk, False))
        yield ("meta", (key, META_KEYS[0], True))
    for key in ("mod", "s1", "v1", "t1", "c1", "a1") if tier == "quick" else META_TARGETS:
        for kind in BLOCK_KEYS:
            for meta_first in (False, True):
                yield ("firstblock", (key, kind, meta_first))
    for key in RENDER_KEYS:
        yield ("rendered", key)
    for key in HOSTED:
        for display in (["public", "protected"], ["public"], ["public", "private", "protected"]):
            yield ("hosted", (key, display))


def work(chunk):
    st = Stats()
    for kind, case in chunk:
        if kind == "attach":
            run_attach(st, case)
        elif kind == "body":
            run_body(st, case)
        elif kind == "firstblock":
            run_firstblock(st, case)
        elif kind == "rendered":
            run_rendered(st, case)
        elif kind == "hosted":
            run_hosted(st, case)
        else:
            run_meta(st, case)
    return st


def replay(path):
    import json

    core.use_repo()
    rec = json.loads(open(path).read())
    i = rec["input"]
    st = Stats()
    if "blocks" in i:
        run_body(st, tuple(i["blocks"]))
        print(i["text"])
    elif i.get("hosted"):
        run_hosted(st, (i["special"], i["display"]))
        print(i["source"])
    elif i.get("rendered"):
        run_rendered(st, i["special"])
        print(i["source"])
    elif "block" in i:
        run_firstblock(st, (i["entity"], i["block"], i["meta_first"]))
        print(i["source"])
    elif "meta" in i:
        run_meta(st, (i["entity"], tuple(next(m for m in META_KEYS if m[0] == i["meta"][0])), i["colon_text"]))
        print(i["source"])
    else:
        check_attachment(st, i["styles"], i["marks"], tuple(i["inline"]), i["seps"], rec["site"], rec["features"], gaps=i.get("gaps"), include="all-include" in rec["site"])
        print(i["source"])
    for v in st.violations:
        print("REPRODUCED", v["clause"], v["features"].get("entity"), "got", v["observed"], "want", v["expected"])
    return 1 if st.violations else 0


def main(tier, replay_path=None):
    if replay_path:
        return replay(replay_path)
    t0 = time.time()
    core.use_repo()
    cases = list(gen_cases(tier))
    k = core.SEED % 23
    cases = cases[k:] + cases[:k]
    n = core.WORKERS * 8
    total = Stats()
    for st in core.pmap(work, [c for c in (cases[i::n] for i in range(n)) if c]):
        total.merge(st)
    nb = 3 if tier == "quick" else 4
    return core.finish(
        PROP, tier, "model_checking", total, t0,
        rule=(f"(a) {len(KEYS)} documentable statements: all-in-one-style x 4 marker sets; every source-adjacent pair x 4x4 styles x inline/own-line x separators "
              + ("{none, blank, comment, both} x 4 marker sets" if tier == "thorough" else "{none, comment}, default markers") +
              f"; every single entity x 4 styles; (b) all sequences of <= {nb} blocks over {len(BLOCK_KEYS)} block kinds through the real MetaMarkdown; "
              f"(c) {len(META_TARGETS)} entity kinds x {len(META_KEYS)} metadata keys + colon-text. distinct_nontrivial = distinct cases"),
        assumptions=[
            "for statements declaring several bindings / names (procedure :: b2, b3; real :: v2, v3) and interface bodies the comment must reach at least one of the declared names and nothing else",
            "admonition start markers are generated at the beginning of a line only (after indentation)",
            "an ordinary comment that directly follows an alternate-marker block is part of that block by design; separators after such blocks start with a blank line",
        ],
        bounds=dict(cases=len(cases), max_blocks=nb),
    )
