"""C13 - every graph shows exactly the relation it is documented to show.

Abstract relation graphs are enumerated exhaustively and turned into projects:
  modules:    all DAGs on <= 3 modules (USE), + submodule ancestry chains, + a program and an
              external procedure using some of them, + a third-party module
  types:      all extension forests on <= 3 types x subsets of composition edges (incl. self reference)
  procedures: ALL digraphs with self-loops on <= 3 procedures (512), + a program, + a generic interface
each x graph_maxdepth x graph_maxnodes x show_proc_parent, and `graph: false` on each single
entity.  The DOT source of every graph object built by the real Documentation() is parsed;
node and edge sets must equal the reference (whole relation for project-wide graphs; reference
breadth-first hop expansion with the documented limits for per-entity graphs, forward and
inverse), and every edge must join two declared nodes.
"""
from __future__ import annotations

import itertools
import re
import time

from mc import core, fordrun
from mc.core import Stats

PROP = "C13"
BIG = 10 ** 9
NODE_RE = re.compile(r'^\s*"?([^"\s\[]+)"?\s*\[(.*)\]\s*$')
EDGE_RE = re.compile(r'^\s*"?([^"\s]+)"?\s*->\s*"?([^"\s\[]+)"?\s*(?:\[(.*)\])?\s*$')


def parse_dot(src):
    nodes, edges = set(), []
    for line in src.splitlines():
        line = line.strip()
        if not line or line.startswith(("digraph", "graph [", "node [", "edge [", "}", "//")):
            continue
        m = EDGE_RE.match(line)
        if m:
            style = "dashed" if "dashed" in (m.group(3) or "") else "solid"
            edges.append((m.group(1), m.group(2), style))
            continue
        m = NODE_RE.match(line)
        if m and m.group(1) not in ("graph", "node", "edge"):
            nodes.add(m.group(1))
    return nodes, edges


def bfs(root, nbrs, maxdepth, maxnodes):
    """reference hop expansion: a hop is added entirely or not at all."""
    added, edges = {root}, set()
    frontier, nesting = [root], 1
    while True:
        hop_nodes, hop_edges = set(), set()
        for n in sorted(frontier):
            for (m, e) in nbrs(n):
                if m not in added:
                    hop_nodes.add(m)
                hop_edges.add(e)
        if len(hop_nodes) + len(added) > maxnodes:
            break
        added |= hop_nodes
        edges |= hop_edges
        if not hop_nodes or nesting >= maxdepth:
            break
        frontier, nesting = hop_nodes, nesting + 1
    return added, edges


# ---------------------------------------------------------------------------
# families
# ---------------------------------------------------------------------------

def docline(name, text, nograph, entmeta):
    """documentation of entity `name`: plain text, `graph: false`, or per-entity graph limits as leading metadata."""
    if nograph == name:
        return "!! graph: false"
    if entmeta and entmeta[0] == name:
        return "\n".join(f"!! {k}: {v}" for k, v in entmeta[1]) + f"\n!! {text}"
    return f"!! {text}"


def module_project(uses, nsub, prog_uses, ext_uses, thirdparty, nograph=None, entmeta=None):
    """uses: set of (i, j) = module i uses module j (i > j).  Returns (files, relation)."""
    files = {}
    rel = dict(uses=set(), anc=set(), nodes=set())
    for i in (1, 2, 3):
        L = [f"module m{i}"]
        L.append(docline(f"m{i}", f"module {i}", nograph, entmeta))
        for (a, b) in sorted(uses):
            if a == i:
                L.append(f"use m{b}")
                rel["uses"].add((f"module~m{i}", f"module~m{b}"))
        if thirdparty == "own" and i == 3:
            # the project's own module carrying the name of a well-known library module: the project's module is meant
            L.append("use omp_lib")
            rel["uses"].add(("module~m3", "module~omp_lib"))
            files["src/omp.f90"] = "module omp_lib\n!! the project's own omp_lib\nimplicit none\ninteger :: nthreads\nend module omp_lib\n"
            rel["nodes"].add("module~omp_lib")
        elif thirdparty and i == 3:
            L.append("use thirdparty_lib")
            rel["uses"].add(("module~m3", "thirdparty_lib"))
        L += ["implicit none", f"integer :: v{i}", "interface", f"module subroutine smp{i}()", f"end subroutine smp{i}", "end interface", f"end module m{i}"]
        files[f"src/m{i}.f90"] = "\n".join(L) + "\n"
        rel["nodes"].add(f"module~m{i}")
    for s in range(1, nsub + 1):
        par = "m1" if s == 1 else f"m1:s{s - 1}"
        files[f"src/s{s}.f90"] = f"submodule ({par}) s{s}\n!! sub {s}\ncontains\n" + ("module subroutine smp1()\nend subroutine smp1\n" if s == 1 else f"subroutine h{s}()\nend subroutine h{s}\n") + f"end submodule s{s}\n"
        rel["anc"].add((f"module~s{s}", "module~m1" if s == 1 else f"module~s{s - 1}"))
        rel["nodes"].add(f"module~s{s}")
    if prog_uses:
        files["src/prog.f90"] = "program prog\n!! prog\n" + "".join(f"use m{j}\n" for j in prog_uses) + "implicit none\nend program prog\n"
        for j in prog_uses:
            rel["uses"].add(("program~prog", f"module~m{j}"))
    if ext_uses:
        files["src/ext.f90"] = "subroutine ext()\n!! ext\n" + "".join(f"use m{j}\n" for j in ext_uses) + "implicit none\nend subroutine ext\n"
        for j in ext_uses:
            rel["uses"].add(("proc~ext", f"module~m{j}"))
    return files, rel


def file_project(deps, samenames, with_prog):
    """one module per source file; deps: set of (i, j) = the module in file i uses the module in file j.  With `samenames`
    the files 2 and 3 carry the same name in two directories (FORD tells them apart by a number: unit.f90, unit.f90~2)."""
    path = {1: "src/u1.f90", 2: "src/a/unit.f90" if samenames else "src/u2.f90", 3: "src/b/unit.f90" if samenames else "src/u3.f90", 4: "src/u4.f90"}
    ident = {1: "sourcefile~u1.f90", 2: "sourcefile~unit.f90" if samenames else "sourcefile~u2.f90", 3: "sourcefile~unit.f90~2" if samenames else "sourcefile~u3.f90",
             4: "sourcefile~u4.f90"}
    files, rel = {}, dict(fdeps=set(), nodes=set())
    for i in (1, 2, 3, 4):
        L = [f"module fm{i}", f"!! module of file {i}"] + [f"use fm{j}" for (a, j) in sorted(deps) if a == i] + ["implicit none", f"integer :: fv{i}", f"end module fm{i}"]
        files[path[i]] = "\n".join(L) + "\n"
        rel["nodes"].add(ident[i])
        for (a, j) in deps:
            if a == i:
                rel["fdeps"].add((ident[i], ident[j]))
    if with_prog:
        files["src/zprog.f90"] = "program zprog\n!! program\nuse fm2\nuse fm3\nimplicit none\nend program zprog\n"
        rel["nodes"].add("sourcefile~zprog.f90")
        rel["fdeps"] |= {("sourcefile~zprog.f90", ident[2]), ("sourcefile~zprog.f90", ident[3])}
    return files, rel


def gen_file_cases(tier):
    pairs = [(2, 1), (3, 1), (3, 2), (4, 2), (4, 3), (2, 3)]
    for k in range(len(pairs) + 1):
        for deps in itertools.combinations(pairs, k):
            if (3, 2) in deps and (2, 3) in deps:
                continue  # modules using each other
            for samenames in (False, True):
                for with_prog in (False, True) if tier == "thorough" or k <= 3 else (True,):
                    yield ("files", tuple(deps), samenames, with_prog)


def gen_module_cases(tier):
    pairs = [(2, 1), (3, 1), (3, 2)]
    for k in range(len(pairs) + 1):
        for uses in itertools.combinations(pairs, k):
            for nsub in (0, 1, 2):
                for prog_uses, ext_uses, third in (((), (), False), ((1,), (), False), ((1, 3), (2,), True), ((), (3,), True), ((1,), (), "own")):
                    yield ("modules", tuple(uses), nsub, prog_uses, ext_uses, third)


def type_project(extends, comps, nograph=None, entmeta=None):
    """extends: {i: parent j or 0}; comps: set of (i, j): type i has a component of type j."""
    L = ["module tm", "implicit none"]
    rel = dict(ext=set(), comp=set(), nodes=set())
    order = [1, 2, 3]
    for i in order:
        ext = f", extends(t{extends[i]})" if extends.get(i) else ""
        L.append(f"type{ext} :: t{i}")
        L.append(docline(f"t{i}", f"type {i}", nograph, entmeta))
        L.append(f"integer :: x{i}")
        for (a, b) in sorted(comps):
            if a == i:
                L.append(f"type(t{b}), pointer :: c{a}{b}" + (" => null()" if False else ""))
                rel["comp"].add((f"type~t{a}", f"type~t{b}"))
        L.append(f"end type t{i}")
        if extends.get(i):
            rel["ext"].add((f"type~t{i}", f"type~t{extends[i]}"))
        rel["nodes"].add(f"type~t{i}")
    L.append("end module tm")
    return {"src/tm.f90": "\n".join(L) + "\n"}, rel


def gen_type_cases(tier):
    ext_opts = [dict(), {2: 1}, {2: 1, 3: 1}, {2: 1, 3: 2}, {3: 2}, {3: 1}]
    allc = [(a, b) for a in (1, 2, 3) for b in (1, 2, 3)]
    maxk = 2 if tier == "quick" else 3
    for ext in ext_opts:
        for k in range(0, maxk + 1):
            for comps in itertools.combinations(allc, k):
                yield ("types", tuple(sorted(ext.items())), comps)


def proc_project(calls, with_prog, with_generic, nograph=None, entmeta=None):
    """calls: set of (i, j): procedure i calls procedure j (self-loops allowed)."""
    L = ["module pm", "implicit none"]
    rel = dict(calls=set(), iface=set(), nodes=set())
    if with_generic:
        L += ["interface gen", "!! generic", "module procedure p1", "module procedure p2", "end interface gen"]
        rel["iface"] |= {("interface~gen", "proc~p1"), ("interface~gen", "proc~p2")}
        rel["nodes"].add("interface~gen")
    L.append("contains")
    for i in (1, 2, 3):
        rec = "recursive " if (i, i) in calls else ""
        arg = "a" if i != 2 else "b"
        L.append(f"{rec}subroutine p{i}({arg})")
        L.append(docline(f"p{i}", f"proc {i}", nograph, entmeta))
        L.append(f"{'integer' if i != 2 else 'real'} :: {arg}")
        for (a, b) in sorted(calls):
            if a == i:
                L.append(f"call p{b}({'1' if b != 2 else '1.0'})")
                rel["calls"].add((f"proc~p{a}", f"proc~p{b}"))
        L.append(f"end subroutine p{i}")
        rel["nodes"].add(f"proc~p{i}")
    L.append("end module pm")
    files = {"src/pm.f90": "\n".join(L) + "\n"}
    if with_prog:
        files["src/prog.f90"] = "program prog\n!! prog\nuse pm, only: p3\nuse pm, only: p1" + (", gen" if with_generic else "") + "\nimplicit none\ncall p1(1)\n" + ("call gen(2.0)\n" if with_generic else "") + "end program prog\n"
        rel["calls"].add(("program~prog", "proc~p1"))
        if with_generic:
            rel["calls"].add(("program~prog", "interface~gen"))
    if with_prog == "intfn":
        # besides: a module procedure whose CONTAINS part holds internal functions only (proc_internals on, see run_case)
        files["src/pm2.f90"] = ("module pm2\nuse pm, only: p1\nimplicit none\ncontains\nsubroutine hostf()\n!! hostf\ninteger :: r\nr = inf1(1)\ncontains\n"
                                "integer function inf1(a)\n!! inf1\ninteger :: a\ninf1 = inf2(a)\nend function inf1\n"
                                "integer function inf2(a)\n!! inf2\ninteger :: a\ninf2 = a\nend function inf2\n"
                                "integer function spare(a)\n!! spare, called by nobody\ninteger :: a\nspare = inf2(a)\ncall p1(a)\nend function spare\n"
                                "end subroutine hostf\nend module pm2\n")
        # (internal procedures of a procedure have no page of their own: FORD's node id for them is none~<name>, and they get no graphs of their own)
        rel["calls"] |= {("proc~hostf", "none~inf1"), ("none~inf1", "none~inf2"), ("none~spare", "none~inf2"), ("none~spare", "proc~p1")}
        rel["nodes"] |= {"proc~hostf", "none~inf1", "none~inf2", "none~spare"}
    if with_prog == "f77":
        # besides: an old-style driver without any USE that works with its own internal procedures only
        files["src/drv.f90"] = ("program drv\n!! drv\nimplicit none\ncall inner()\ncontains\nsubroutine inner()\n!! inner\ncall inner2(2)\nend subroutine inner\n"
                                "subroutine inner2(a)\n!! inner2\ninteger :: a\nend subroutine inner2\nend program drv\n")
        rel["calls"] |= {("program~drv", "proc~inner"), ("proc~inner", "proc~inner2")}
        rel["nodes"] |= {"proc~inner", "proc~inner2"}
    return files, rel


def gen_proc_cases(tier):
    allc = [(a, b) for a in (1, 2, 3) for b in (1, 2, 3)]
    for mask in range(512):
        calls = tuple(c for k, c in enumerate(allc) if mask >> k & 1)
        yield ("procs", calls, False, False)
    for mask in range(0, 512, 7 if tier == "quick" else 1):
        calls = tuple(c for k, c in enumerate(allc) if mask >> k & 1)
        yield ("procs", calls, True, False)
        yield ("procs", calls, True, True)
    for mask in range(0, 512, 31 if tier == "quick" else 3):
        calls = tuple(c for k, c in enumerate(allc) if mask >> k & 1)
        yield ("procs", calls, "f77", False)
        yield ("procs", calls, "intfn", False)


def tbp_project(tname, decl, chain, caller):
    """calls made through type-bound procedures: type `tname` (letter case as declared) with bindings clear => stack_clear and
    size (function); the caller reaches them through a variable declared with `decl` (its own spelling of the type name),
    directly or through a component of a second type."""
    low = tname.lower()
    L = ["module tb", "implicit none", f"type {tname}", "integer :: n", "contains", "procedure :: clear => stack_clear", "procedure :: depth_of => stack_size",
         f"end type {tname}", "type holder", f"type({tname}) :: inner", "end type holder", "contains",
         "subroutine stack_clear(self)", f"class({tname}) :: self", "self%n = 0", "end subroutine stack_clear",
         "integer function stack_size(self)", f"class({tname}) :: self", "stack_size = self%n", "end function stack_size"]
    var = {"type": f"type({decl}) :: s", "class": f"class({decl}) :: s", "holder": "type(holder) :: h"}
    body = {1: ["call s%clear()", "k = s%depth_of()"], 2: ["call h%inner%clear()", "k = h%inner%depth_of()"]}[chain]
    if caller == "subroutine":
        if chain == 1:
            L += ["subroutine reset(s)", var["class"] if decl.startswith("C:") else var["type"].replace("C:", ""), "integer :: k"] + body + ["end subroutine reset"]
        else:
            L += ["subroutine reset(h)", var["holder"], "integer :: k"] + body + ["end subroutine reset"]
    L += ["end module tb"]
    rel = dict(calls={("proc~reset", "proc~stack_clear"), ("proc~reset", "proc~stack_size")}, iface=set(), nodes={"proc~reset", "proc~stack_clear", "proc~stack_size"})
    return {"src/tb.f90": "\n".join(L) + "\n"}, rel


def gen_tbp_cases(tier):
    for tname in ("stack_t", "Stack_t", "STACK_T"):
        for decl in ("stack_t", "Stack_t", "STACK_T"):
            for kw in ("type", "class"):
                yield ("tbp", tname, decl, kw, 1)
        yield ("tbp", tname, tname, "type", 2)


def run_tbp_case(st: Stats, case):
    _, tname, decl, kw, chain = case
    files, rel = tbp_project(tname, decl, chain, "subroutine")
    if kw == "class" and chain == 1:
        files = {k: v.replace(f"subroutine reset(s)\ntype({decl}) :: s", f"subroutine reset(s)\nclass({decl}) :: s") for k, v in files.items()}
    opts = dict(graph=True, display=["public", "private", "protected"], incl_src=True)
    r = fordrun.build(files, opts, stage="docs")
    st.evaluations += 1
    stratum = "tbp/" + ("chain" if chain == 2 else kw)
    inp = dict(case=list(case), files=files)
    feats = dict(family="tbp", type_declared=tname, type_in_declaration=decl, keyword=kw, chain=chain, same_spelling=(tname == decl))
    st.nontrivial.add(core.digest(case))
    try:
        if r.error is not None or r.stage_reached != "docs":
            st.violation("ford-failed", stratum, feats, inp, (repr(r.error) + " " + r.log[-300:]).strip(), "graphs are built")
            st.stratum(stratum, 1)
            return
        got = graphs_of(r, "procs")
        st.states.add(core.digest(sorted((k, sorted(v[0]), sorted(set(v[1]))) for k, v in got.items())))
        exp = expected_graphs("procs", rel, 10000, BIG)
        bad = 0
        for key, (wn, we) in exp.items():
            if key not in got:
                if len(wn) > 1:
                    bad += 1
                    st.violation("graph-missing", stratum, dict(feats, graph=key[1] or key[0]), inp, sorted(map(str, got)), list(key))
                continue
            gn, ge = got[key]
            st.transitions += len(ge)
            if gn != wn or set(ge) != set(we):
                bad += 1
                st.violation("wrong-node-set" if gn != wn else "wrong-edge-set", stratum,
                             dict(feats, graph=key[1] or key[0], extra=",".join(sorted(gn - wn)), missing=",".join(sorted(wn - gn))), inp,
                             dict(graph=list(key), nodes=sorted(gn), edges=sorted(set(ge))), dict(nodes=sorted(wn), edges=sorted(we)))
        st.stratum(stratum, bad)
    finally:
        r.cleanup()


LIMITS_QUICK = [(10000, BIG), (1, BIG), (10000, 2)]
LIMITS_FULL = [(d, n) for d in (1, 2, 10000) for n in (1, 2, 3, BIG)]


RENDER = {}


def expected_rendering(root, nbrs, maxdepth, maxnodes):
    """how a single-root graph is shown: as a table of the first hop when that hop alone exceeds the node limit,
    otherwise as a drawing of the hops that fit (nothing when there is only the root)."""
    hop1 = sorted({m for (m, e) in nbrs(root) if m != root})
    if hop1 and len(hop1) + 1 > maxnodes:
        # one row per relation of the root (two relations with the same entity = two rows; a self-reference shows the root itself)
        return ("table", sorted(m.split("~", 1)[-1] for (m, e) in nbrs(root)))
    added, _ = bfs(root, nbrs, maxdepth, maxnodes)
    return ("svg" if len(added) > 1 else "none", [])


def graphs_of(r, family):
    """{(owner ident, graph kind): (nodes, edges)} for every graph object FORD built."""
    out = {}
    p = r.project
    for name, attr in (("project:use", "usegraph"), ("project:type", "typegraph"), ("project:call", "callgraph"), ("project:file", "filegraph")):
        g = getattr(p, attr, None)
        if g is not None and g != "" and hasattr(g, "dot"):
            out[(name, "")] = parse_dot(g.dot.source)
    ents = list(p.modules) + list(p.submodules) + list(p.types) + list(p.procedures) + list(p.programs) + (list(p.files) if family == "files" else [])
    for e in ents:
        d = e.get_dir() or "none"
        ident = f"{d}~{e.ident}"
        for attr in ("usesgraph", "usedbygraph", "callsgraph", "calledbygraph", "inhergraph", "inherbygraph", "efferentgraph", "afferentgraph"):
            g = getattr(e, attr, None)
            if g is not None and hasattr(g, "dot"):
                out[(ident, attr)] = parse_dot(g.dot.source)
                try:
                    html = str(g)
                except Exception as e:  # noqa
                    html = f"<error {type(e).__name__}>"
                kind = "table" if 'class="root"' in html else ("svg" if "<svg" in html else ("error" if html.startswith("<error") else "none"))
                labels = sorted(x.strip() for x in re.findall(r'class="node"[^>]*>(?:<a [^>]*>)?([^<]+)', html) if x.strip()) if kind == "table" else []
                RENDER[(ident, attr)] = (kind, labels)
    return out


EXPREND = {}


def expected_graphs(family, rel, maxdepth, maxnodes):
    exp = {}
    EXPREND.clear()
    if family == "modules":
        U, A = rel["uses"], rel["anc"]
        fwd = lambda n: [(b, (a, b, "dashed")) for (a, b) in sorted(U) if a == n] + [(b, (a, b, "solid")) for (a, b) in sorted(A) if a == n]  # noqa
        inv = lambda n: [(a, (a, b, "dashed")) for (a, b) in sorted(U) if b == n] + [(a, (a, b, "solid")) for (a, b) in sorted(A) if b == n]  # noqa
        roots = sorted(rel["nodes"]) + sorted({a for (a, b) in U if a.startswith(("program~", "proc~"))})
        for n in roots:
            exp[(n, "usesgraph")] = bfs(n, fwd, maxdepth, maxnodes)
            EXPREND[(n, "usesgraph")] = expected_rendering(n, fwd, maxdepth, maxnodes)
            if n.startswith("module~") and not n.startswith("module~s"):
                exp[(n, "usedbygraph")] = bfs(n, inv, maxdepth, maxnodes)
            elif n.startswith("module~s"):
                exp[(n, "usedbygraph")] = bfs(n, inv, maxdepth, maxnodes)
        nodes = set(rel["nodes"]) | {x for e in U for x in e}
        exp[("project:use", "")] = (nodes, {(a, b, "dashed") for (a, b) in U} | {(a, b, "solid") for (a, b) in A})
    elif family == "files":
        D = rel["fdeps"]
        fwd = lambda n: [(b, (a, b, "dashed")) for (a, b) in sorted(D) if a == n]  # noqa
        inv = lambda n: [(a, (a, b, "dashed")) for (a, b) in sorted(D) if b == n]  # noqa
        for n in sorted(rel["nodes"]):
            exp[(n, "efferentgraph")] = bfs(n, fwd, maxdepth, maxnodes)
            exp[(n, "afferentgraph")] = bfs(n, inv, maxdepth, maxnodes)
        # (the project-wide file graph draws its arrows from the file depended on to the dependent file)
        exp[("project:file", "")] = (set(rel["nodes"]), {(b, a, "solid") for (a, b) in D})
    elif family == "types":
        E, C = rel["ext"], rel["comp"]
        fwd = lambda n: [(b, (a, b, "dashed")) for (a, b) in sorted(C) if a == n] + [(b, (a, b, "solid")) for (a, b) in sorted(E) if a == n]  # noqa
        inv = lambda n: [(a, (a, b, "dashed")) for (a, b) in sorted(C) if b == n] + [(a, (a, b, "solid")) for (a, b) in sorted(E) if b == n]  # noqa
        for n in sorted(rel["nodes"]):
            exp[(n, "inhergraph")] = bfs(n, fwd, maxdepth, maxnodes)
            exp[(n, "inherbygraph")] = bfs(n, inv, maxdepth, maxnodes)
            EXPREND[(n, "inhergraph")] = expected_rendering(n, fwd, maxdepth, maxnodes)
            EXPREND[(n, "inherbygraph")] = expected_rendering(n, inv, maxdepth, maxnodes)
        exp[("project:type", "")] = (set(rel["nodes"]), {(a, b, "dashed") for (a, b) in C} | {(a, b, "solid") for (a, b) in E})
    else:
        K, I = rel["calls"], rel["iface"]
        fwd = lambda n: [(b, (a, b, "solid")) for (a, b) in sorted(K) if a == n] + [(b, (a, b, "dashed")) for (a, b) in sorted(I) if a == n]  # noqa
        inv = lambda n: [] if n.startswith("program~") else ([(a, (a, b, "solid")) for (a, b) in sorted(K) if b == n] + [(a, (a, b, "dashed")) for (a, b) in sorted(I) if b == n])  # noqa
        allnodes = set(rel["nodes"]) | {x for e in K for x in e}
        for n in sorted(allnodes):
            if n.startswith("none~"):
                continue
            exp[(n, "callsgraph")] = bfs(n, fwd, maxdepth, maxnodes)
            EXPREND[(n, "callsgraph")] = expected_rendering(n, fwd, maxdepth, maxnodes)
            if not n.startswith("program~"):
                exp[(n, "calledbygraph")] = bfs(n, inv, maxdepth, maxnodes)
                EXPREND[(n, "calledbygraph")] = expected_rendering(n, inv, maxdepth, maxnodes)
        exp[("project:call", "")] = (allnodes, {(a, b, "solid") for (a, b) in K} | {(a, b, "dashed") for (a, b) in I})
    return exp


def run_case(st: Stats, case, limits, nograph=None, ppar=False, entmeta=None):
    family = case[0]
    if family == "tbp":
        return run_tbp_case(st, case)
    if family == "modules":
        files, rel = module_project(set(case[1]), case[2], case[3], case[4], case[5], nograph, entmeta)
    elif family == "files":
        files, rel = file_project(set(case[1]), case[2], case[3])
    elif family == "types":
        files, rel = type_project(dict(case[1]), set(case[2]), nograph, entmeta)
    else:
        files, rel = proc_project(set(case[1]), case[2], case[3], nograph, entmeta)
    for (maxdepth, maxnodes) in limits:
        opts = dict(graph=True, graph_maxdepth=maxdepth, graph_maxnodes=maxnodes, show_proc_parent=ppar,
                    display=["public", "private", "protected"], incl_src=True)
        if family == "procs" and case[2] == "intfn":
            opts["proc_internals"] = True
        r = fordrun.build(files, opts, stage="docs")
        st.evaluations += 1
        stratum = f"{family}/d{maxdepth if maxdepth < 100 else 'inf'}/n{maxnodes if maxnodes < 100 else 'inf'}" + ("/nograph" if nograph else "") + ("/entity-limits" if entmeta else "")
        inp = dict(case=[list(x) if isinstance(x, tuple) else x for x in case], maxdepth=maxdepth, maxnodes=maxnodes, nograph=nograph, files=files,
                   entmeta=[entmeta[0], [list(kv) for kv in entmeta[1]]] if entmeta else None)
        feats = dict(family=family, maxdepth=maxdepth, maxnodes=maxnodes, nograph=nograph or "", show_proc_parent=ppar,
                     entity_limits=",".join(f"{k}={v}" for k, v in entmeta[1]) if entmeta else "")
        st.nontrivial.add(core.digest([case, maxdepth, maxnodes, nograph, ppar, entmeta]))
        try:
            if r.error is not None or r.stage_reached != "docs":
                st.violation("ford-failed", stratum, feats, inp, (repr(r.error) + " " + r.log[-300:]).strip(), "graphs are built")
                st.stratum(stratum, 1)
                continue
            RENDER.clear()
            got = graphs_of(r, family)
            st.states.add(core.digest(sorted((k, sorted(v[0]), sorted(set(v[1]))) for k, v in got.items())))
            bad = 0
            # every edge joins two declared nodes
            for key, (nodes, edges) in got.items():
                st.transitions += len(edges)
                dangling = [e for e in edges if e[0] not in nodes or e[1] not in nodes]
                if dangling:
                    bad += 1
                    st.violation("dangling-edge", stratum, dict(feats, graph=key[1] or key[0]), inp, dict(graph=list(key), edge=list(dangling[0])), "both endpoints declared as nodes")
            if nograph:
                gid = {"m": "module~", "t": "type~", "p": "proc~"}[nograph[0]] + nograph
                own = [k for k in got if k[0] == gid]
                if own:
                    bad += 1
                    st.violation("graph-false-entity-has-graphs", stratum, dict(feats, graph=own[0][1]), inp, [list(k) for k in own], "no graphs for an entity with graph: false")
                for key, (nodes, edges) in got.items():
                    if key[0].startswith("project:") and gid in nodes:
                        bad += 1
                        st.violation("graph-false-entity-in-project-graph", stratum, dict(feats, graph=key[0]), inp, sorted(nodes), f"no node {gid}")
                st.stratum(stratum, bad)
                continue
            exp = expected_graphs(family, rel, maxdepth, maxnodes)
            if entmeta:
                # limits given in an entity's own documentation apply to that entity's graphs
                md = dict(entmeta[1])
                own = expected_graphs(family, rel, int(md.get("graph_maxdepth", maxdepth)), int(md.get("graph_maxnodes", maxnodes)))
                gid = {"m": "module~", "t": "type~", "p": "proc~"}[entmeta[0][0]] + entmeta[0]
                for key in exp:
                    if key[0] == gid:
                        exp[key] = own[key]
            for key, (wn, we) in exp.items():
                if key[0].startswith("project:") and maxnodes < BIG:
                    continue  # node limits of project-wide graphs are a rendering matter
                if key not in got:
                    if len(wn) > 1 or key[0].startswith("project:"):
                        bad += 1
                        st.violation("graph-missing", stratum, dict(feats, graph=key[1] or key[0]), inp, sorted(map(str, got)), list(key))
                    continue
                gn, ge = got[key]
                ge = set(ge)
                if gn != wn:
                    bad += 1
                    st.violation("wrong-node-set", stratum, dict(feats, graph=key[1] or key[0], extra=",".join(sorted(gn - wn)), missing=",".join(sorted(wn - gn))), inp,
                                 dict(graph=list(key), nodes=sorted(gn)), sorted(wn))
                elif ge != set(we):
                    bad += 1
                    st.violation("wrong-edge-set", stratum, dict(feats, graph=key[1] or key[0], extra=str(sorted(ge - set(we))[:3]), missing=str(sorted(set(we) - ge)[:3])), inp,
                                 dict(graph=list(key), edges=sorted(ge)), sorted(we))
            if not entmeta and not ppar:
                for key, want_r in EXPREND.items():
                    got_r = RENDER.get(key)
                    if got_r is None or key not in got:
                        continue
                    if got_r[0] != want_r[0] or (want_r[0] == "table" and got_r[1] != want_r[1]):
                        bad += 1
                        st.violation("wrong-rendering", stratum, dict(feats, graph=key[1], shown=got_r[0], expected_shown=want_r[0]), inp,
                                     dict(graph=list(key), shown=got_r[0], table_rows=got_r[1]), dict(shown=want_r[0], table_rows=want_r[1]))
            st.stratum(stratum, bad)
            if len(st.samples) < 2 and family == "procs" and len(case[1]) == 3:
                st.sample(dict(case=inp["case"], limits=[maxdepth, maxnodes], graphs={f"{k[0]}:{k[1]}": dict(nodes=sorted(v[0]), edges=sorted(set(v[1]))) for k, v in list(got.items())[:3]}))
        finally:
            r.cleanup()


# ---- every graph FORD builds for an entity with a page is shown on that page --------------------------------------------
BODIES_SRC = {"src/blas.f90": ("module blas\n!! generic interfaces made of interface bodies only (library procedures)\nimplicit none\ninterface axpy\n!! axpy\n"
                                "subroutine saxpy(x)\nreal :: x\nend subroutine saxpy\nsubroutine daxpy(x)\ndouble precision :: x\nend subroutine daxpy\nend interface axpy\n"
                                "interface rescale\n!! rescale\nmodule procedure rescale_r\nend interface rescale\ncontains\nsubroutine rescale_r(x)\n!! rescale_r\nreal :: x\n"
                                "call axpy(x)\nend subroutine rescale_r\nsubroutine update(y)\n!! update\nreal :: y\ncall axpy(y)\ncall rescale(y)\nend subroutine update\nend module blas\n")}
EMBED_PROJECTS = ["bodies", "procs", "procs-generic", "modules", "types", "files"]


def run_embed_case(st: Stats, case):
    _, which, limits = case
    if which == "bodies":
        files = dict(BODIES_SRC)
    elif which == "procs":
        files, _ = proc_project({(1, 2), (2, 3), (3, 1)}, True, False)
    elif which == "procs-generic":
        files, _ = proc_project({(1, 2), (2, 3)}, True, True)
    elif which == "modules":
        files, _ = module_project({(2, 1), (3, 2)}, 2, (1, 3), (2,), False)
    elif which == "types":
        files, _ = type_project({2: 1, 3: 2}, {(1, 3)})
    else:
        files, _ = file_project({(2, 1), (3, 2), (4, 3)}, True, True)
    maxdepth, maxnodes = limits
    r = fordrun.build(files, dict(graph=True, graph_maxdepth=maxdepth, graph_maxnodes=maxnodes, display=["public", "private", "protected"], incl_src=True), stage="docs")
    st.evaluations += 1
    stratum = f"embedded/{which}"
    feats = dict(family="embedded", maxdepth=maxdepth, maxnodes=maxnodes, nograph="", show_proc_parent=False, entity_limits="")
    inp = dict(case=["embed", which, list(limits)], files=files)
    st.nontrivial.add(core.digest(inp["case"]))
    try:
        if r.error is not None or r.stage_reached != "docs":
            st.violation("ford-failed", stratum, feats, inp, (repr(r.error) + " " + r.log[-300:]).strip(), "graphs are built")
            st.stratum(stratum, 1)
            return
        bad = 0
        shown = []
        for pg in r.docs.docs:
            obj = getattr(pg, "obj", None)
            if obj is None:
                continue
            html_ = None
            for attr in ("usesgraph", "usedbygraph", "callsgraph", "calledbygraph", "inhergraph", "inherbygraph", "efferentgraph", "afferentgraph"):
                g = getattr(obj, attr, None)
                if g is None or not hasattr(g, "dot"):
                    continue
                snippet = str(g).strip()
                if not snippet:
                    continue
                st.transitions += 1
                if html_ is None:
                    html_ = pg.html
                ok = snippet in html_
                shown.append((getattr(obj, "name", "?"), attr, ok))
                if not ok:
                    bad += 1
                    st.violation("graph-not-on-page", stratum, dict(feats, graph=attr, entity_kind=type(obj).__name__), inp, dict(entity=getattr(obj, "name", "?"), graph=attr), "the graph FORD built for the entity is embedded in the entity's page")
        st.states.add(core.digest(sorted(shown)))
        st.stratum(stratum, bad)
    finally:
        r.cleanup()


def work(chunk):
    st = Stats()
    for (case, limits, nograph, ppar, *more) in chunk:
        if case[0] == "embed":
            run_embed_case(st, case)
        else:
            run_case(st, case, limits, nograph, ppar, more[0] if more else None)
    return st


def gen_jobs(tier):
    limits = LIMITS_QUICK if tier == "quick" else LIMITS_FULL
    jobs = []
    for c in itertools.chain(gen_module_cases(tier), gen_type_cases(tier), gen_proc_cases(tier)):
        jobs.append((c, limits, None, False))
    for c in gen_file_cases(tier):
        jobs.append((c, limits, None, False))
    for which in EMBED_PROJECTS:
        for lim in limits:
            jobs.append((("embed", which, lim), [], None, False))
    # show_proc_parent on a slice, graph: false on each single entity of a few base shapes
    for c in list(gen_proc_cases(tier))[:: 16 if tier == "quick" else 4]:
        jobs.append((c, [(10000, BIG)], None, True))
    for ng in ("m1", "m2", "m3"):
        for c in (("modules", ((2, 1), (3, 1), (3, 2)), 1, (1, 3), (2,), True), ("modules", ((2, 1),), 0, (), (), False)):
            jobs.append((c, [(10000, BIG)], ng, False))
    for ng in ("t1", "t2", "t3"):
        for c in (("types", ((2, 1), (3, 2)), ((1, 3), (3, 1))), ("types", (), ((1, 2),))):
            jobs.append((c, [(10000, BIG)], ng, False))
    for ng in ("p1", "p2", "p3"):
        for c in (("procs", ((1, 2), (2, 3), (3, 1)), True, False), ("procs", ((1, 1), (2, 1)), False, False)):
            jobs.append((c, [(10000, BIG)], ng, False))
    # per-entity limits in the entity's documentation (narrower and wider than the project-wide value)
    chain_m = ("modules", ((2, 1), (3, 2)), 2, (3,), (), False)
    full_m = ("modules", ((2, 1), (3, 1), (3, 2)), 1, (1, 3), (2,), True)
    chain_t = ("types", ((2, 1), (3, 2)), ((1, 3),))
    chain_p = ("procs", ((1, 2), (2, 3)), True, False)
    ring_p = ("procs", ((1, 2), (2, 3), (3, 1), (1, 3)), False, True)
    for proj_limits in ((10000, BIG), (1, BIG), (10000, 2)):
        for meta in ((("graph_maxdepth", 1),), (("graph_maxdepth", 2),), (("graph_maxnodes", 2),), (("graph_maxnodes", 3),), (("graph_maxdepth", 1), ("graph_maxnodes", 2))):
            for ent, cases in (("m1", (chain_m, full_m)), ("m3", (chain_m, full_m)), ("t1", (chain_t,)), ("t3", (chain_t,)), ("p1", (chain_p, ring_p)), ("p3", (chain_p, ring_p))):
                for c in cases:
                    jobs.append((c, [proj_limits], None, False, (ent, meta)))
    for c in gen_tbp_cases(tier):
        jobs.append((c, [], None, False))
    return jobs


def replay(path):
    import json

    core.use_repo()
    rec = json.loads(open(path).read())
    i = rec["input"]

    def tup(x):
        return tuple(tup(y) for y in x) if isinstance(x, list) else x

    st = Stats()
    em = i.get("entmeta")
    if i["case"][0] == "embed":
        run_embed_case(st, tup(i["case"]))
        for v in st.violations:
            print("REPRODUCED", v["clause"], v["observed"])
        return 1 if st.violations else 0
    run_case(st, tup(i["case"]), [(i.get("maxdepth", 10000), i.get("maxnodes", BIG))], i.get("nograph"), rec["features"].get("show_proc_parent", False),
             (em[0], tuple(tuple(kv) for kv in em[1])) if em else None)
    for f, t in i["files"].items():
        print("-----", f)
        print(t)
    for v in st.violations:
        print("REPRODUCED", v["clause"], v["features"].get("graph"), v["observed"], "want", v["expected"])
    return 1 if st.violations else 0


def main(tier, replay_path=None):
    if replay_path:
        return replay(replay_path)
    t0 = time.time()
    core.use_repo()
    jobs = gen_jobs(tier)
    k = core.SEED % 31
    jobs = jobs[k:] + jobs[:k]
    n = core.WORKERS * 6
    total = Stats()
    for st in core.pmap(work, [c for c in (jobs[i::n] for i in range(n)) if c]):
        total.merge(st)
    return core.finish(
        PROP, tier, "model_checking", total, t0,
        rule=("all 8 USE DAGs on 3 modules x submodule chains {0,1,2} x 4 user configurations; 6 extension forests x all composition-edge subsets of size <= "
              + ("2" if tier == "quick" else "3") + " on 3 types; all 512 call digraphs with self-loops on 3 procedures (+ program / generic interface variants); each x "
              + (f"{len(LIMITS_QUICK)} (maxdepth, maxnodes) settings" if tier == "quick" else "3 x 4 (maxdepth, maxnodes) settings") +
              "; show_proc_parent on a slice; graph: false on each single entity of 6 base shapes. transitions = edges checked; states = distinct graph sets"),
        assumptions=[
            "`dot` is stubbed: the DOT source FORD hands to graphviz is the observation",
            "all entities are visible (display includes private), so the skipping of hidden procedures is not exercised here",
            "node limits of the project-wide graphs only decide whether they are rendered and are not judged",
        ],
        bounds=dict(jobs=len(jobs)),
    )
