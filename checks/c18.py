"""C18 - rendered declarations say what the source says, and stay inert text.

Character literals built from ALL sequences of <= N symbols over an alphabet of
HTML- and Markdown-significant pieces (< > & " '' \\ two blanks * _ ` [[x]] |x|
<b> &amp;) are placed at every declaration site whose text reaches a page
(initial value of a module variable / local / component / namelist member, bind
name of a procedure and of a variable, kind / len expression, dimension
expression), together with relational-operator expressions.  The generated pages
(module, procedure, type, namelist) are parsed; for the row / heading of each
declaration the oracle demands (i) the source text verbatim (NBSP = blank) and
(ii) the same element structure as for the neutral literal 'x' - no element,
attribute or entity may be created by source text.
"""
from __future__ import annotations

import html.parser
import itertools
import re
import time

from mc import core, fordrun
from mc.core import Stats

PROP = "C18"
SYMS = ["<", ">", "&", '"', "''", "\\", "  ", "*", "_", "`", "[[x]]", "|x|", "<b>", "&amp;", ",", ";", "!", "=", "/"]
BATCH = 24


class Dom(html.parser.HTMLParser):
    """minimal tree: nodes = [tag, attrs, children]; text nodes = str"""

    VOID = {"br", "hr", "img", "input", "link", "meta", "area", "base", "col", "embed", "source", "track", "wbr"}

    def __init__(self, text):
        super().__init__(convert_charrefs=True)
        self.root = ["#root", {}, []]
        self.stack = [self.root]
        self.feed(text)
        self.close()

    def handle_starttag(self, tag, attrs):
        node = [tag, dict(attrs), []]
        self.stack[-1][2].append(node)
        if tag not in self.VOID:
            self.stack.append(node)

    def handle_startendtag(self, tag, attrs):
        self.stack[-1][2].append([tag, dict(attrs), []])

    def handle_endtag(self, tag):
        for i in range(len(self.stack) - 1, 0, -1):
            if self.stack[i][0] == tag:
                del self.stack[i:]
                break

    def handle_data(self, data):
        self.stack[-1][2].append(data)


def find_path(node, pred, path=()):
    if isinstance(node, str):
        return None
    if pred(node):
        return path + (node,)
    for ch in node[2]:
        r = find_path(ch, pred, path + (node,))
        if r:
            return r
    return None


def text_of(node):
    if isinstance(node, str):
        return node
    return "".join(text_of(c) for c in node[2])


def shape_of(node):
    """element structure (tags and attribute names, no text)."""
    if isinstance(node, str):
        return None
    return (node[0], tuple(sorted(node[1])), tuple(s for s in (shape_of(c) for c in node[2]) if s is not None))


def norm(s):
    return " ".join(s.replace("\xa0", " ").split())


def norm_keep(s):
    return s.replace("\xa0", " ").strip()


def squeeze(s):
    """remove blanks outside character literals (blanks inside literals are kept; NBSP = blank)."""
    s = s.replace("\xa0", " ")
    out, litq, i = [], None, 0
    while i < len(s):
        c = s[i]
        if litq:
            out.append(c)
            if c == litq:
                if i + 1 < len(s) and s[i + 1] == litq:
                    out.append(c)
                    i += 1
                else:
                    litq = None
        elif c in "'\"":
            litq = c
            out.append(c)
        elif not c.isspace():
            out.append(c)
        i += 1
    return "".join(out)


def row_of(dom, anchor):
    """the <tr> (or enclosing card header for procedures) that carries id=anchor."""
    p = find_path(dom.root, lambda n: n[1].get("id") == anchor)
    if not p:
        return None
    for n in reversed(p):
        if n[0] in ("tr",):
            return n
    for n in reversed(p):
        if n[0] in ("div",) and "card-header" in (n[1].get("class") or ""):
            return n
    return p[-2] if len(p) > 1 else p[-1]


# ---------------------------------------------------------------------------
# sites: each returns (source files, [(page rel path fn, anchor, expected text fragments, cell selector)]) for a batch of payloads
# ---------------------------------------------------------------------------

def lit(payload):
    return "'" + payload + "'"


def site_program(site, payloads):
    """One module `cm` holding one declaration per payload.  Returns (files, checks) where a check is
    (page, anchor, expected verbatim text that must appear in the row)."""
    decl, cont, checks = [], [], []
    types = []
    lower_opt = site.endswith("-lower")
    site = site[:-6] if lower_opt else site
    for i, pl in enumerate(payloads):
        n = f"v{i}"
        L = lit(pl) if site != "relational" else None
        shown = L
        if site == "initial-module":
            decl.append(f"character(len=*), parameter :: {n} = {L}")
            checks.append(("module/cm.html", f"variable-{n}", shown))
        elif site == "initial-local":
            cont += [f"subroutine s{i}()", f"character(len=20) :: {n} = {L}", f"end subroutine s{i}"]
            checks.append((f"proc/s{i}.html", f"variable-{n}", shown))
        elif site == "initial-component":
            types += [f"type t{i}", f"character(len=20) :: {n} = {L}", f"end type t{i}"]
            checks.append((f"type/t{i}.html", f"variable-{n}", shown))
        elif site == "initial-namelist":
            cont += [f"subroutine s{i}()", f"character(len=20) :: {n} = {L}", f"namelist /nl{i}/ {n}", f"end subroutine s{i}"]
            checks.append((f"namelist/nl{i}.html", f"variable-{n}", shown))
        elif site == "bind-proc":
            cont += [f"subroutine s{i}() bind(c, name={L})", f"end subroutine s{i}"]
            checks.append((f"proc/s{i}.html", f"HEADING:s{i}", f"name={L}"))
        elif site == "bind-var":
            decl.append(f"integer, bind(c, name={L}) :: {n}")
            checks.append(("module/cm.html", f"variable-{n}", f"name={L}"))
        elif site == "bind-stmt":
            # the BIND attribute given by a separate statement
            decl += [f"integer :: {n}", f"bind(c, name={L}) :: {n}"]
            checks.append(("module/cm.html", f"variable-{n}", f"name={L}"))
        elif site == "len-expr":
            decl.append(f"character(len=len({L})) :: {n}")
            checks.append(("module/cm.html", f"variable-{n}", f"len({L})"))
        elif site == "kind-expr":
            decl.append(f"integer(kind=kind({L})) :: {n}")
            checks.append(("module/cm.html", f"variable-{n}", f"kind({L})"))
        elif site == "dim-expr":
            decl.append(f"integer :: {n}(len({L}))")
            checks.append(("module/cm.html", f"variable-{n}", f"(len({L}))"))
        elif site == "expr-dim-result":
            # the function result's declaration is shown in the heading of the "Return Value" section and on the module page
            cont += [f"function f{i}() result({n})", f"integer :: {n}({pl})", f"{n} = 0", f"end function f{i}"]
            # shown on the procedure's page and (summary) on the module page: the same text on both
            checks.append([(f"proc/f{i}.html", f"variable-{n}", f"({pl})", "integer", f"integer, ({pl})"),
                           ("module/cm.html", f"variable-{n}", f"({pl})", "integer", f"integer, ({pl})")])
        elif site == "expr-dim-arg":
            cont += [f"subroutine s{i}({n})", f"integer, intent(in) :: {n}({pl})", f"end subroutine s{i}"]
            checks.append((f"proc/s{i}.html", f"variable-{n}", f"{n}({pl})", "integer"))
        elif site == "expr-dim-module":
            decl.append(f"integer :: {n}({pl})")
            checks.append(("module/cm.html", f"variable-{n}", f"{n}({pl})", "integer"))
        elif site == "expr-dim-component":
            types += [f"type t{i}", f"integer :: {n}({pl})", f"end type t{i}"]
            checks.append((f"type/t{i}.html", f"variable-{n}", f"{n}({pl})", "integer"))
        elif site == "expr-dimattr-result":
            cont += [f"function f{i}() result({n})", f"integer, dimension({pl}) :: {n}", f"{n} = 0", f"end function f{i}"]
            checks.append([(f"proc/f{i}.html", f"variable-{n}", f"dimension({pl})", "integer", f"integer, dimension({pl})"),
                           ("module/cm.html", f"variable-{n}", f"dimension({pl})", "integer", f"integer, dimension({pl})")])
        elif site == "expr-kind-result":
            cont += [f"function f{i}() result({n})", f"integer(kind={pl}) :: {n}", f"{n} = 0", f"end function f{i}"]
            checks.append([(f"proc/f{i}.html", f"variable-{n}", f"integer(kind={pl})", "integer", f"integer(kind={pl})"),
                           ("module/cm.html", f"variable-{n}", f"integer(kind={pl})", "integer", f"integer(kind={pl})")])
        elif site == "charlen-arg":
            # payload = what follows the entity name: array spec and / or character length, F77 style included
            cont += [f"subroutine s{i}({n})", f"character, intent(in) :: {n}{pl}", f"end subroutine s{i}"]
            checks.append((f"proc/s{i}.html", f"variable-{n}", f"{n}{pl}", "character"))
        elif site == "charlen-module":
            decl.append(f"character :: {n}{pl}")
            checks.append(("module/cm.html", f"variable-{n}", f"{n}{pl}", "character"))
        elif site == "charlen-component":
            types += [f"type t{i}", f"character :: {n}{pl}", f"end type t{i}"]
            checks.append((f"type/t{i}.html", f"variable-{n}", f"{n}{pl}", "character"))
        elif site == "initial-array2":
            # two literals in one initial value: the second must be shown too
            decl.append(f"character(len=*), parameter :: {n}(2) = [{L}, 'second<i>{i}']")
            checks.append(("module/cm.html", f"variable-{n}", f"[{L}, 'second<i>{i}']"))
        elif site == "initial-concat":
            decl.append(f"character(len=*), parameter :: {n} = {L} // 'tail&{i}' // {L}")
            checks.append(("module/cm.html", f"variable-{n}", f"{L} // 'tail&{i}' // {L}"))
        elif site == "proc-prefix":
            # payload = prefix keywords of a procedure statement; the heading must show exactly these
            kind = "function" if i % 2 else "subroutine"
            typed = "integer " if (kind == "function" and i % 4 == 1) else ""
            if "module" in pl.split():
                decl += ["interface", f"{pl} {typed}{kind} s{i}(a)", "integer, intent(in) :: a" + ("" if typed or kind == "subroutine" else f"\ninteger :: s{i}"), f"end {kind} s{i}", "end interface"]
            else:
                cont += [f"{pl} {typed}{kind} s{i}(a)", "integer, intent(in) :: a" + ("" if typed or kind == "subroutine" else f"\ninteger :: s{i}")] + ([f"s{i} = a"] if kind == "function" else []) + [f"end {kind} s{i}"]
            checks.append(("module/cm.html", f"PREFIX:s{i}", pl))
        elif site == "fn-typespec":
            # payload = name of a derived type that holds a prefix keyword; the function is typed in its prefix: no keyword in the heading, the type as written
            if not types:
                for tn in FN_TYPES:
                    types += [f"type {tn}", "integer :: q", f"end type {tn}"]
            cont += [f"type({pl}) function s{i}(a)", "integer, intent(in) :: a", f"s{i}%q = a", f"end function s{i}",
                     f"function b{i}(a) bind(c, name='b_{i}') result(rb{i})", "integer, intent(in) :: a", f"integer :: rb{i}", f"rb{i} = a", f"end function b{i}"]
            checks.append([("module/cm.html", f"PREFIX:s{i}", ""), (f"proc/s{i}.html", f"variable-s{i}", f"type({pl})", "type"),
                           (f"proc/b{i}.html", f"HEADING:b{i}", f"result(rb{i}) bind(c, name='b_{i}')")])
        elif site == "relational":
            decl.append(f"logical, parameter :: {n} = {pl}")
            checks.append(("module/cm.html", f"variable-{n}", pl))
        elif site == "binding-target":
            # payload = name of the implementation; the heading must read `bnd => <name>` whether or not the target is displayed
            vis = "public" if i % 2 else "private"
            types += [f"type bt{i}", "integer :: q", "contains", f"procedure :: bnd{i} => {pl}", f"generic :: gen{i} => bnd{i}", f"end type bt{i}"]
            decl.append(f"{vis} :: {pl}")
            cont += [f"subroutine {pl}(self)", f"class(bt{i}) :: self", f"end subroutine {pl}"]
            checks.append((f"type/bt{i}.html", f"boundprocedure-bnd{i}", f"bnd{i} => {pl}"))
    src = ["module cm", "implicit none", "integer, parameter :: nn = 8"] + types + decl + (["contains"] + cont if cont else []) + ["end module cm"]
    return {"src/cm.f90": "\n".join(src) + "\n"}, checks


SITES = ["bind-stmt", "initial-array2", "initial-concat", "initial-module", "initial-local", "initial-component", "initial-namelist", "bind-proc", "bind-var", "len-expr", "kind-expr", "dim-expr",
]
EXPR_SITES = ["expr-dim-result", "expr-dim-arg", "expr-dim-module", "expr-dim-component", "expr-dimattr-result", "expr-kind-result"]
# expressions (no character literals) for array bounds / kind selectors; `nn` is a module parameter
EXPRS = ["nn", "nn/2", "(nn+1)/2", "2*nn/3", "nn/2/2", "max(nn/2, 1)", "nn**2", "nn-1", "2:nn", "-1:nn/2", "nn, nn/2", "0:nn-1, 2", "size([1, 2])", "8/2", "nn*2/4"]
RELATIONAL = ["1 < 2", "1 > 2", "1 <= 2", "1 >= 2", "1 == 2", "1 /= 2", "1 .lt. 2", "1 < 2 .and. 3 >= 2", "(1 <= 2) .or. (3 == 4)", "2 > 1 .and. 1 /= 0",
              "selected_real_kind(6, 30) > 0", "iand(1, 2) == 0", "[1, 2] == [1, 3]", "'a' < 'b'", "1.0_8 >= 2.0_8"]
FN_TYPES = ["pure_t", "module_t", "elemental_t", "t_recursive", "impure_data", "plain_t"]
CHARLEN_SITES = ["charlen-arg", "charlen-module", "charlen-component"]
CHARLEN = ["*4", "*(nn)", "*(2*nn)", "*(nn/2)", "(3)*2", "(nn)*(nn/2)", "(2, nn)*4", "(3)", "*(*)", "(nn)*(*)"]
KINDEXPR = ["selected_real_kind(6, 30)", "selected_int_kind(9)", "kind(1.0d0)", "max(4, 8)", "c_int"]


def check_batch(st: Stats, site, payloads, neutral_shape):
    OPTS = dict(display=["public", "private", "protected"], proc_internals=True, incl_src=False, **(dict(lower=True) if site.endswith("-lower") else {}))
    if len(payloads) > 1:
        files, checks = site_program(site, payloads)
        r0 = fordrun.build(files, OPTS, stage="write")
        ok = r0.error is None and r0.stage_reached == "write" and "ERROR in file" not in r0.log and "Error parsing" not in r0.log and all(
            (r0.out / c[0]).exists() for cs in checks for c in (cs if isinstance(cs, list) else [cs]))
        r0.cleanup()
        if not ok:
            shapes = {}
            for pl in payloads:  # isolate the offending payload(s)
                shapes.update(check_batch(st, site, [pl], neutral_shape))
            return shapes
    files, checks = site_program(site, payloads)
    r = fordrun.build(files, OPTS, stage="write")
    st.evaluations += 1
    stratum = f"site/{site}"
    shapes = {}
    try:
        if r.error is not None or r.stage_reached != "write":
            st.violation("ford-failed", stratum, dict(site=site, payload_class="batch"), dict(site=site, payloads=payloads),
                         (repr(r.error) + " " + r.log[-300:]).strip(), "site is written")
            st.stratum(stratum, 1)
            return shapes
        doms = {}
        flat = [(c, pl) for cs, pl in zip(checks, payloads) for c in (cs if isinstance(cs, list) else [cs])]
        for (page, anchor, want, *more), pl in flat:
            st.transitions += 1
            st.nontrivial.add(core.digest([site, pl]))
            inp = dict(site=site, payload=pl, source_line=[l for l in files["src/cm.f90"].split("\n") if (pl in l)][:1])
            syms = [s for s in SYMS if s in pl]
            feats = dict(site=site, symbols="".join(sorted(set(c for c in pl if not c.isalnum() and c not in " .(),")))[:12], has_lt="<" in pl, has_amp="&" in pl,
                         has_eq="=" in pl, has_comma="," in pl, has_blanks="  " in pl, has_bslash="\\" in pl, has_quote="'" in pl or '"' in pl)
            p = r.out / page
            if not p.exists():
                st.violation("page-missing", stratum, feats, inp, page, "page exists")
                st.stratum(stratum, 1)
                continue
            if page not in doms:
                doms[page] = Dom(p.read_text())
            dom = doms[page]
            if anchor.startswith("PREFIX:"):
                name = anchor.split(":")[1]
                pth = find_path(dom.root, lambda n: n[0] == "h3" and re.search(rf"\b{name}\b", text_of(n)) and re.search(r"\b(function|subroutine)\b", text_of(n)))
                row = pth[-1] if pth else None
                if row is not None:
                    words = set(re.findall(r"\b(impure|pure|elemental|non_recursive|recursive|module)\b", norm(text_of(row)).lower()))
                    wantw = set(want.lower().split())
                    st.states.add(core.digest([site, sorted(words)]))
                    if words != wantw:
                        st.violation("text-differs-from-source", stratum, dict(site=site, symbols="", prefix=want, extra=",".join(sorted(words - wantw)), missing=",".join(sorted(wantw - words))),
                                     inp, norm(text_of(row))[:200], want)
                        st.stratum(stratum, 1)
                    else:
                        st.stratum(stratum, 0)
                    continue
            if anchor.startswith("HEADING:"):
                name = anchor.split(":")[1]
                pth = find_path(dom.root, lambda n: n[0] == "h2" and name in text_of(n)) or find_path(dom.root, lambda n: n[0] in ("h1", "h3") and name in text_of(n) and "bind" in text_of(n))
                row = pth[-1] if pth else None
            else:
                row = row_of(dom, anchor)
            if row is None:
                st.violation("declaration-not-found-on-page", stratum, feats, inp, dict(page=page, anchor=anchor), "row with the variable's anchor")
                st.stratum(stratum, 1)
                continue
            got_text = norm_keep(text_of(row))
            shp = shape_of(row)
            shapes[pl] = shp
            bad = 0
            if squeeze(want) not in squeeze(got_text) or (more and not squeeze(got_text).startswith(more[0])) or (len(more) > 1 and squeeze(got_text) != squeeze(more[1])):
                bad += 1
                st.violation("text-differs-from-source", stratum, feats, inp, got_text[:200], want if not more else f"{more[0]} ... {want}")
            if neutral_shape is not None and shp != neutral_shape:
                bad += 1
                st.violation("source-text-changed-page-structure", stratum, feats, inp, repr(shp)[:300], repr(neutral_shape)[:300])
            st.states.add(core.digest([site, shp]))
            st.stratum(stratum, bad)
            if len(st.samples) < 2 and len(pl) > 2:
                st.sample(dict(site=site, payload=pl, rendered_row_text=got_text[:120]))
    finally:
        r.cleanup()
    return shapes


def work(job):
    site, payloads = job
    st = Stats()
    # neutral literal first: its row structure is the reference structure for this site
    neutral = "x" if site not in ("relational",) else "1 .eqv. 2"
    if site in EXPR_SITES:
        neutral = "4"
    if site in CHARLEN_SITES or site == "fn-typespec":
        neutral = None
    if site in ("binding-target", "proc-prefix"):
        neutral = None
    if site == "kind-expr-fn":
        neutral = "4"
    sh = check_batch(st, site if site != "kind-expr-fn" else "kind-fn", [neutral], None) if False else None
    shapes = check_batch(Stats(), site, [neutral], None) if neutral is not None else {}
    nshape = shapes.get(neutral)
    for i in range(0, len(payloads), BATCH):
        check_batch(st, site, payloads[i:i + BATCH], nshape)
    return st


def _prefixes():
    out = []
    groups = [["pure", "impure"], ["elemental"], ["recursive", "non_recursive"], ["module"]]
    for k in range(1, 4):
        for gs in itertools.combinations(range(len(groups)), k):
            for choice in itertools.product(*(groups[g] for g in gs)):
                if "pure" in choice and "elemental" not in choice and "impure" in choice:
                    continue
                if "elemental" in choice and ("recursive" in choice) and False:
                    continue
                for perm in itertools.permutations(choice):
                    out.append(" ".join(perm))
    return [p for p in out if not ("impure" in p.split() and "elemental" not in p.split())] + ["impure elemental", "elemental impure", "IMPURE ELEMENTAL", "Non_Recursive"]


PREFIXES = sorted(set(_prefixes()))
# literals with many backslashes (paths, LaTeX, regular expressions)
EXTRA_PAYLOADS = ["C:\\dir\\sub\\x", "\\\\\\\\", "a\\b\\c\\d\\e", "\\frac{\\alpha}{\\beta}\\,"]


def payload_sets(tier):
    n = 2 if tier == "quick" else 3
    out = list(EXTRA_PAYLOADS)
    for k in range(1, n + 1):
        for seq in itertools.product(SYMS, repeat=k):
            s = "a" + "".join(seq) + "z"
            # a literal must not contain an unbalanced single quote: '' is the doubled quote
            out.append(s)
    return out


def replay(path):
    import json

    core.use_repo()
    rec = json.loads(open(path).read())
    i = rec["input"]
    st = Stats()
    site = i["site"]
    neutral = "4" if site in EXPR_SITES else ("x" if site != "relational" else "1 .eqv. 2")
    nshape = check_batch(Stats(), site, [neutral], None).get(neutral) if site not in ("binding-target", "proc-prefix") else None
    check_batch(st, site, [i["payload"]], nshape)
    print(i)
    for v in st.violations:
        print("REPRODUCED", v["clause"], v["observed"], "want", v["expected"])
    return 1 if st.violations else 0


def main(tier, replay_path=None):
    if replay_path:
        return replay(replay_path)
    t0 = time.time()
    core.use_repo()
    pls = payload_sets(tier)
    jobs = []
    chunk = BATCH * (2 if tier == "quick" else 6)
    for site in SITES:
        for i in range(0, len(pls), chunk):
            jobs.append((site, pls[i:i + chunk]))
    jobs.append(("relational", RELATIONAL))
    for es in EXPR_SITES:
        # a kind selector is one scalar expression
        jobs.append((es, [e for e in EXPRS if es != "expr-kind-result" or (":" not in e and ", " not in e.replace("(nn/2, 1)", "").replace("[1, 2]", ""))]))
    # the `lower` option lower-cases code, never the text of character literals
    for ls in ("initial-module-lower", "initial-component-lower", "bind-proc-lower", "initial-namelist-lower"):
        jobs.append((ls, ["Hello <World> & Co", "MeV  GeV", "N/A", "getCode", "ALL CAPS", "camelCase_Name"]))
    jobs.append(("fn-typespec", FN_TYPES))
    for cs in CHARLEN_SITES:
        jobs.append((cs, [c for c in CHARLEN if cs == "charlen-arg" or "(*)" not in c]))
    jobs.append(("binding-target", [f"impl_{c}" for c in "abcdefgh"]))
    jobs.append(("proc-prefix", PREFIXES))
    k = core.SEED % 5
    jobs = jobs[k:] + jobs[:k]
    total = Stats()
    for st in core.pmap(work, jobs):
        total.merge(st)
    return core.finish(
        PROP, tier, "model_checking", total, t0,
        rule=(f"all sequences of <= {2 if tier == 'quick' else 3} symbols over {len(SYMS)} HTML/Markdown-significant pieces ({len(pls)} literals) x {len(SITES)} declaration sites "
              f"(batched {BATCH} declarations per site build) + {len(RELATIONAL)} relational expressions + {len(EXPRS)} bound/kind expressions x {len(EXPR_SITES)} sites (module variable, component, argument, function result) + {len(CHARLEN)} entity array-spec / character-length suffixes x {len(CHARLEN_SITES)} sites; transitions = declarations checked on their page; states = distinct row structures"),
        assumptions=[
            "literal payloads are wrapped in single quotes; a non-breaking blank is accepted for a blank",
            "the row structure for the neutral literal 'x' at the same site is the reference structure",
        ],
        bounds=dict(literals=len(pls), sites=len(SITES)),
    )
