"""C14 - fixed-form sources document the same as their free-form equivalent.

(a) converter as a machine: ALL sequences of <= L fixed-form line classes
    (statement, labelled, continuation with marks & 1 + $ x, `0` in column 6,
    comment lines C c * !, `!` in columns 2-5, blank, short, text beyond column 72
    with the length limit on/off, cpp, inline comment / doc, doc lines) are run
    through the real convertToFree + FortranReader and compared with a reference
    fixed-form lexer (column rules -> reference free-form lexer of mc/reflex.py).
(b) every base program of the abstract model rendered in free form and in fixed form
    with every single continuation break position between tokens (thorough: pairs on
    a subset), labels, comment-line styles, sequence-field text; the canonical entity
    trees (incl. doc words and calls) must be equal.
"""
from __future__ import annotations

import itertools
import shutil
import re
import time

from mc import canon, core, fordrun
from mc.core import Stats
from mc.reflex import RefFree, classify_ford_item, norm_items

PROP = "C14"

# ---------------------------------------------------------------------------
# (a) line-class sequences
# ---------------------------------------------------------------------------
PAD = " " * 6
LINES = [
    ("stmt", PAD + "x{n} = {n}"),
    ("labelled", " {n}0   continue"),
    ("open", PAD + "y{n} = f({n},"),
    ("cont&", "     &  {n})"),
    ("cont1", "     1  z{n})"),
    ("cont+", "     +{n})"),
    ("cont$", "     $ {n})"),
    ("contx", "     x w{n})"),
    ("cont!", "     !  e{n})"),
    ("contmid", "     &  m{n},"),
    ("zero", "     0v{n} = {n}"),
    ("cC", "C comment {n}"),
    ("cc", "c comment {n}"),
    ("cstar", "* comment {n}"),
    ("cbang", "! comment {n}"),
    ("cbang3", "  ! comment {n}"),
    ("cbang8", "        ! comment {n}"),
    ("docindent", "       !! d{n}"),
    ("blank", ""),
    ("short", "   "),
    ("blank8", "        "),
    ("long", PAD + "u{n} = {n}|72|SEQ{n}"),
    ("long73", PAD + "u{n} = {n}|72|7"),
    ("longbang", PAD + "u{n} = {n}|72|!SEQ{n}"),
    ("longopen", PAD + "y{n} = g({n},|72|SEQ{n}"),
    ("longopen80", PAD + "y{n} = g({n},|72| + q{n} + r{n},"),
    ("longstmt80", PAD + "t{n} = {n}|72| + q{n} + r{n}"),
    # a statement label in front of a line that carries a sequence field (and goes on at the next line)
    ("longlabelopen", " {n}0   y{n} = g({n},|72|SEQ{n}"),
    ("longlabel", " {n}1   u{n} = {n}|72|SEQ{n}"),
    ("cpp", "#define X{n}"),
    ("inlinec", PAD + "x{n} = {n} ! c{n}"),
    ("inlined", PAD + "x{n} = {n} !! d{n}"),
    ("openc", PAD + "y{n} = h({n}, ! c{n}"),
    ("opend", PAD + "y{n} = h({n}, !! d{n}"),
    # a continued line holding a literal with an unpaired quote of the other kind, then a comment
    ("openlitq", PAD + "y{n} = k(\"it's\", ! c{n}"),
    ("openlitqd", PAD + "y{n} = k('say \"hi', !! d{n}"),
    ("doc", "!! d{n}"),
    # comment and documentation lines reaching beyond column 72 (the column limit applies to statements only)
    ("doclong", "!! d{n} words|72| tail{n}"),
    ("cClong", "C comment {n}|72| more{n}"),
    ("inlinedlong", PAD + "x{n} = {n} !! d{n} and|72| tail{n}"),
    ("litbang", PAD + "s{n} = 'a!b' // \"c!!d\" ! c{n}"),
]
MARKS = dict(docmark="!", predocmark=">", docmark_alt="*", predocmark_alt="|")


def fixed_to_ref_free(lines, length_limit):
    """Reference conversion by the column rules of fixed source form.  Returns
    (free-form lines, features, ill-formed reason)."""
    recs = []
    feats = set()
    for raw in lines:
        line = raw.rstrip("\n")
        first = line[:1]
        if first == "#":
            continue
        if first in ("C", "c", "*", "!"):
            recs.append(("comment", "!" + line[1:]))
            continue
        if not line.strip():
            recs.append(("comment", ""))
            continue
        stripped = line.lstrip()
        if stripped.startswith("!") and (len(line) - len(stripped)) != 5:
            recs.append(("comment", stripped))
            continue
        if len(line) <= 6:
            recs.append(("comment", ""))
            continue
        label = line[:5].strip()
        cont = line[5] not in (" ", "0")
        code = line[6:72] if length_limit else line[6:]
        if length_limit and len(line) > 72 and line[72:].strip():
            feats.add("seqfield")
            if "!" in line[6:72]:
                feats.add("inline_comment_reaches_seqfield")
            if line[72:].lstrip().startswith("!"):
                feats.add("seqfield_starts_with_bang")
        recs.append(("cont" if cont else "init", label, code))
    out = []
    ill = None
    # does the next regular line continue this one?
    regular = [i for i, r in enumerate(recs) if r[0] in ("init", "cont")]
    nxt_cont = {}
    for a, b in zip(regular, regular[1:]):
        nxt_cont[a] = recs[b][0] == "cont"
    if regular and recs[regular[0]][0] == "cont":
        ill = "continuation line without initial line"
    for i, r in enumerate(recs):
        if r[0] == "comment":
            out.append(r[1])
            continue
        _, label, code = r
        # split off an inline comment (outside literals)
        lit, cpos = None, -1
        for k, ch in enumerate(code):
            if lit:
                if ch == lit:
                    lit = None
            elif ch in "'\"":
                lit = ch
            elif ch == "!":
                cpos = k
                break
        if lit:
            ill = "literal open at end of fixed-form line"
        stmt = code if cpos < 0 else code[:cpos]
        com = "" if cpos < 0 else code[cpos:]
        if r[0] == "cont" and label:
            ill = "label on continuation line"
        text = ((label + " ") if label else "") + stmt.strip()
        if nxt_cont.get(i):
            text += " &"
            if com:
                feats.add("inline_comment_on_continued_line")
        if com:
            text += " " + com
        out.append(text)
    return out, feats, ill


class Feeder:
    def __init__(self, lines, eof_newline=True):
        self.it = iter([l + "\n" for l in lines[:-1]] + [lines[-1] + ("\n" if eof_newline else "")] if lines else [])

    def __iter__(self):
        return self

    def __next__(self):
        return next(self.it)


def run_ford_fixed(lines, length_limit, eof_newline=True):
    import ford.reader as fr

    fr.open = lambda *a, **k: Feeder(lines, eof_newline)
    err, items = None, []
    try:
        for item in fr.FortranReader("mem.f", fixed=True, length_limit=length_limit, **MARKS):
            items.append(item)
    except Exception as e:  # noqa
        err = f"{type(e).__name__}: {str(e)[:80]}"
    finally:
        del fr.open
    return items, err


def judge_seq(st: Stats, seq, length_limit, eof_newline=True):
    lines = [LINES[k][1].replace("{n}", str(i + 1)) for i, k in enumerate(seq)]
    lines = [l.split("|72|")[0].ljust(72) + l.split("|72|")[1] if "|72|" in l else l for l in lines]
    free, feats, ill = fixed_to_ref_free(lines, length_limit)
    ref = RefFree(MARKS["docmark"], MARKS["predocmark"])
    for l in free:
        ref.feed(l)
    st.evaluations += 1
    st.transitions += 1
    site = "line-seq/limit-on" if length_limit else "line-seq/limit-off"
    if ill or ref.ill or not ref.complete():
        st.unjudged += 1
        return
    items, err = run_ford_fixed(lines, length_limit, eof_newline)
    want = norm_items(ref.out)
    f = dict(features=",".join(sorted(feats)), classes="+".join(LINES[k][0] for k in seq), length_limit=length_limit, eof_newline=eof_newline,
             inline_comment_reaches_seqfield="inline_comment_reaches_seqfield" in feats)
    inp = dict(lines=lines, length_limit=length_limit, eof_newline=eof_newline)
    st.nontrivial.add(core.digest([want, length_limit]))
    if err:
        st.violation("exception-on-wellformed-input", site, f, inp, err, "no exception")
        st.stratum(site, 1)
        return
    got = norm_items([classify_ford_item(i) for i in items])
    st.states.add(core.digest(got))
    if got != want:
        sg = [t for k, t in got if k == "s"]
        sw = [t for k, t in want if k == "s"]
        clause = "statements-differ" if sg != sw else ("doc-lines-differ" if [t for k, t in got if k == "d"] != [t for k, t in want if k == "d"] else "order-differs")
        st.violation(clause, site, f, inp, got, want)
        st.stratum(site, 1)
    else:
        st.stratum(site, 0)
        if len(st.samples) < 2 and len(seq) == 3:
            st.sample(dict(lines=lines, length_limit=length_limit, expected=want))


def seq_shard(args):
    first, L = args
    st = Stats()
    for n in range(1, L + 1):
        for rest in itertools.product(range(len(LINES)), repeat=n - 1):
            seq = (first,) + rest
            judge_seq(st, seq, True)
            if any(LINES[k][0].startswith("long") for k in seq):
                judge_seq(st, seq, False)
            if n <= 2 or LINES[seq[-1]][0].startswith("long"):
                # the last line of the file lacks its line terminator
                judge_seq(st, seq, True, eof_newline=False)
    return st


# ---------------------------------------------------------------------------
# (b) free vs fixed rendering of model programs
# ---------------------------------------------------------------------------
TOKEN_RE = re.compile(r"\s+|'(?:[^']|'')*'|\"(?:[^\"]|\"\")*\"|[A-Za-z_][A-Za-z0-9_]*|\d+(?:\.\d*)?(?:[eEdD][+-]?\d+)?(?:_\w+)?|=>|::|==|/=|<=|>=|\*\*|//|\(/|/\)|.")


def break_points(stmt):
    """character offsets (token boundaries, not inside literals/tokens) where a statement may be continued."""
    pts, pos = [], 0
    toks = TOKEN_RE.findall(stmt)
    for t in toks[:-1]:
        pos += len(t)
        if pos < len(stmt) and stmt[:pos].strip():
            pts.append(pos)
    # boundaries directly after/before whitespace tokens are duplicates of each other; keep unique
    out = []
    for p in pts:
        if not out or stmt[out[-1]:p].strip():
            out.append(p)
    return out


def with_docs(lines):
    """Insert a doc comment after every declaration-like statement and a plain comment here and there.
    Returns list of (kind, text) with kind in stmt | doc | comment."""
    out = []
    n = 0
    for l in lines:
        out.append(("stmt", l.strip()))
        low = l.strip().lower()
        if re.match(r"^(module|submodule|program|subroutine|function|type\b|integer|real|logical|character|interface \w|abstract interface|.*\bfunction\b|.*\bsubroutine\b)", low) \
                and not low.startswith(("end", "module procedure")) and "=" not in low.split("::")[0]:
            n += 1
            out.append(("doc", f"doc{n}a word{n} tail{n}"))
        if low.startswith(("implicit none", "contains")):
            out.append(("comment", f"plain comment {n}"))
    return out


def render_free(items):
    out = []
    for kind, t in items:
        if kind == "stmt":
            out.append(t)
        elif kind == "doc":
            out.append("!! " + t)
        else:
            out.append("! " + t)
    return "\n".join(out) + "\n"


CMARKS = ["&", "1", "+", "$", "x", "*", "9", "!"]


def render_fixed(items, breaks=(), comment_style=0, seqfield=False, inline_doc=False, labels=False):
    """breaks: set of (statement index, offset)."""
    out = []
    bmap = {}
    for (si, off) in breaks:
        bmap.setdefault(si, []).append(off)
    si = -1
    k = 0
    pending_inline = None
    stmts = [i for i, (kd, _) in enumerate(items) if kd == "stmt"]
    for idx, (kind, t) in enumerate(items):
        if kind == "stmt":
            si += 1
            parts, last = [], 0
            for off in sorted(bmap.get(si, [])):
                parts.append(t[last:off])
                last = off
            parts.append(t[last:])
            label = ""
            if labels and t.lower() == "continue":
                label = f"{(si % 90) + 10}"
            first = label.rjust(4).ljust(6) if label else " " * 6
            doc_inline = ""
            if inline_doc and idx + 1 < len(items) and items[idx + 1][0] == "doc":
                doc_inline = " !! " + items[idx + 1][1]
            for pi, p in enumerate(parts):
                if pi == 0:
                    line = first + p
                else:
                    line = "     " + CMARKS[k % len(CMARKS)] + p
                    k += 1
                if pi == len(parts) - 1:
                    line += doc_inline
                if seqfield and len(line) <= 72 and not doc_inline:
                    line = line.ljust(72) + f"SEQ{si:05d}"
                out.append(line)
        elif kind == "doc":
            if inline_doc and idx > 0 and items[idx - 1][0] == "stmt":
                continue
            out.append("!! " + t)
        else:
            c = ["C", "c", "*", "!"][(comment_style + idx) % 4] if comment_style else "!"
            out.append(c + " " + t)
    return "\n".join(out) + "\n"


CPP_CMD = "cpp -traditional-cpp -E -D__GFORTRAN__"
HAVE_CPP = shutil.which("cpp") is not None


def tree_of(files, **extra):
    r = fordrun.build_fast(files, dict(display=["public", "private", "protected"], proc_internals=True, **extra))
    if r.error is not None or not r.project or not r.project.files or "ERROR in file" in r.log or "Error parsing" in r.log:
        return None, (repr(r.error) + " " + r.log[-300:])
    recs = canon.tree(r.project)
    for rec in recs:
        rec["path"] = re.sub(r"^file:[^/]*", "file:*", rec["path"])
    return recs, None


def base_programs(tier):
    from checks import c01

    shapes = []
    for (case, _b) in c01.gen_shapes("quick"):
        _, unit, spec, procs = case
        if "fn-typed-charkind" in procs:
            continue  # its FUNCTION statement is wider than 72 columns: not a fixed-form line as it stands
        if len(spec) <= 1 and len(procs) <= 1:
            shapes.append(case)
    # plus one statement-rich program (calls in executable part)
    return shapes


def program_items(case):
    from checks import c01
    from mc.fmodel import Style

    sf = c01.build_shape(case)
    text = sf.text(Style())
    lines = [l for l in text.split("\n") if l.strip()]
    # add an executable part with calls to the first procedure (if any)
    return with_docs(lines)


def tree_shard(args):
    cases, tier = args
    st = Stats()
    for case in cases:
        items = program_items(case)
        free = render_free(items)
        base, err = tree_of({"src/m.f90": free})
        st.evaluations += 1
        stratum = f"tree/{case[1]}"
        if base is None:
            st.violation("free-form-baseline-failed", stratum, {}, dict(case=list(case), source=free), err, "parses")
            continue
        nstmt = sum(1 for k, _ in items if k == "stmt")
        variants = [("plain", dict()), ("comment-styles", dict(comment_style=1)), ("seqfield", dict(seqfield=True)),
                    ("inline-doc", dict(inline_doc=True)), ("labels", dict(labels=True))]
        stmts = [t for k, t in items if k == "stmt"]
        allbreaks = [(si, off) for si, t in enumerate(stmts) for off in break_points(t)]
        for b in allbreaks:
            variants.append(("break", dict(breaks=(b,))))
        for b in allbreaks[:: max(1, len(allbreaks) // 12)]:
            variants.append(("break+seqfield", dict(breaks=(b,), seqfield=True)))
            variants.append(("break+inline-doc", dict(breaks=(b,), inline_doc=True)))
        if tier == "thorough":
            for b1, b2 in itertools.combinations(allbreaks[:: max(1, len(allbreaks) // 25)], 2):
                variants.append(("break2", dict(breaks=(b1, b2))))
        # the same fixed-form text under each extension that selects fixed form by default
        for ext in ("for", "F", "FOR"):
            variants.append((f"ext-{ext}", dict(_ext=ext, comment_style=1, **(dict(breaks=(allbreaks[len(allbreaks) // 2],)) if allbreaks else {}))))
        if HAVE_CPP:
            # ... and run through a preprocessor first (these extensions are preprocessed by default when a preprocessor is configured)
            for ext in ("F", "FOR"):
                variants.append((f"ext-{ext}-cpp", dict(_ext=ext, _cpp=True, comment_style=1, **(dict(breaks=(allbreaks[len(allbreaks) // 2],)) if allbreaks else {}))))
                # (a sequence field in columns 73-80 is still ignored after preprocessing)
                variants.append((f"ext-{ext}-cpp+seqfield", dict(_ext=ext, _cpp=True, seqfield=True, **(dict(breaks=(allbreaks[len(allbreaks) // 2],)) if allbreaks else {}))))
        for vname, kw in variants:
            kw = dict(kw)
            ext = kw.pop("_ext", "f")
            cpp = kw.pop("_cpp", False)
            fixed = render_fixed(items, **kw)
            got, err = tree_of({f"src/m.{ext}": fixed}, **(dict(preprocess=True, preprocessor=CPP_CMD) if cpp else {}))
            st.evaluations += 1
            st.transitions += 1
            f = dict(variant=vname, unit=case[1], features="")
            inp = dict(case=list(case), variant=vname, args={k: (list(v) if isinstance(v, tuple) else v) for k, v in kw.items()}, fixed=fixed, free=free)
            st.nontrivial.add(core.digest([case, vname, kw.get("breaks")]))
            if got is None:
                st.violation("ford-failed-on-fixed-form", stratum, f, inp, err, "parses like the free-form file")
                st.stratum(stratum + "/" + vname, 1)
                continue
            st.states.add(core.digest(got))
            d = canon.diff(got, base)
            d2 = canon.diff(base, got)
            if d or d2:
                what, key, detail = (d or d2)[0]
                f.update(diff=what, entity_kind=key[1])
                st.violation("tree-differs-from-free-form", stratum, f, inp, dict(diff=what, key=list(key), detail=detail), "same tree as free form")
                st.stratum(stratum + "/" + vname, 1)
            else:
                st.stratum(stratum + "/" + vname, 0)
        if len(st.samples) < 1:
            st.sample(dict(case=list(case), fixed_with_break=render_fixed(items, breaks=(allbreaks[len(allbreaks) // 2],)) if allbreaks else ""))
    return st


def include_cases(st: Stats):
    """INCLUDE in a fixed-form file: the included text is fixed form too and follows the same column rules
    (limit on: columns 73+ ignored; limit off: kept)."""
    free = {"src/m.f90": "module m\n  implicit none\n  include 'decl.inc'\ncontains\n  subroutine s(a)\n    integer :: a\n    include 'body.inc'\n  end subroutine s\nend module m\n",
            "src/decl.inc": "integer :: alpha_value = 1\n!! doc of alpha\ninteger :: gamma_value = 3\n!! doc of gamma\n",
            "src/body.inc": "integer :: local_value\n"}
    base, err = tree_of(free)
    for limit in (True, False):
        if limit:
            decl = "      integer :: alpha_value = 1".ljust(72) + "SEQ00010\n!! doc of alpha\n      integer :: gamma_value = 3\n!! doc of gamma\n"
            body = "      integer :: local_value".ljust(72) + "SEQ1\n"
        else:
            decl = "      integer :: alpha_value = 1\n!! doc of alpha\n" + " " * 50 + "integer :: gamma_value = 3\n!! doc of gamma\n"
            body = " " * 55 + "integer :: local_value\n"
        fixed = {"src/m.f": "      module m\n      implicit none\n      include 'decl.inc'\n      contains\n      subroutine s(a)\n      integer :: a\n      include 'body.inc'\n"
                            "      end subroutine s\n      end module m\n",
                 "src/decl.inc": decl, "src/body.inc": body}
        got, err2 = tree_of(fixed, fixed_length_limit=limit)
        st.evaluations += 1
        st.transitions += 1
        stratum = "tree/include/" + ("limit-on" if limit else "limit-off")
        f = dict(variant="include", unit="module", features="", length_limit=limit)
        inp = dict(variant="include", length_limit=limit, fixed=fixed, free=free)
        st.nontrivial.add(core.digest(["include", limit]))
        if base is None or got is None:
            st.violation("ford-failed-on-fixed-form", stratum, f, inp, err or err2, "parses like the free-form file")
            st.stratum(stratum, 1)
            continue
        d = canon.diff(got, base) or canon.diff(base, got)
        if d:
            what, key, detail = d[0]
            st.violation("tree-differs-from-free-form", stratum, dict(f, diff=what, entity_kind=key[1]), inp, dict(diff=what, key=list(key), detail=detail), "same tree as free form")
            st.stratum(stratum, 1)
        else:
            st.stratum(stratum, 0)


def replay(path):
    import json

    core.use_repo()
    rec = json.loads(open(path).read())
    st = Stats()
    if rec["input"].get("variant") == "include":
        include_cases(st)
        for v in st.violations:
            print("REPRODUCED", v["clause"], v["observed"])
        return 1 if st.violations else 0
    if "lines" in rec["input"]:
        lines = rec["input"]["lines"]
        print("\n".join(lines))
        free, feats, ill = fixed_to_ref_free(lines, rec["input"]["length_limit"])
        print("reference free form:", free, feats, ill)
        items, err = run_ford_fixed(lines, rec["input"]["length_limit"], rec["input"].get("eof_newline", True))
        print("ford:", items, err)
        ref = RefFree(MARKS["docmark"], MARKS["predocmark"])
        for l in free:
            ref.feed(l)
        got = norm_items([classify_ford_item(i) for i in items])
        print("want:", norm_items(ref.out))
        return 1 if got != norm_items(ref.out) else 0
    print(rec["input"]["fixed"])
    base, _ = tree_of({"src/m.f90": rec["input"]["free"]})
    vname = rec["input"].get("variant", "")
    ext = vname.split("-")[1] if vname.startswith("ext-") else "f"
    got, err = tree_of({f"src/m.{ext}": rec["input"]["fixed"]}, **(dict(preprocess=True, preprocessor=CPP_CMD) if vname.endswith("-cpp") else {}))
    if got is None:
        print("ford failed:", err)
        return 1
    d = canon.diff(got, base) + canon.diff(base, got)
    for x in d:
        print("DIFF", x)
    return 1 if d else 0


def main(tier, replay_path=None):
    if replay_path:
        return replay(replay_path)
    t0 = time.time()
    core.use_repo()
    L = 3 if tier == "quick" else 4
    total = Stats()
    order = list(range(len(LINES)))
    order = order[core.SEED % len(order):] + order[: core.SEED % len(order)]
    for st in core.pmap(seq_shard, [(k, L) for k in order]):
        total.merge(st)
    progs = base_programs(tier)
    if tier == "quick":
        progs = progs[::4]
    n = core.WORKERS * 4
    for st in core.pmap(tree_shard, [(c, tier) for c in (progs[i::n] for i in range(n)) if c]):
        total.merge(st)
    inc = Stats()
    include_cases(inc)
    total.merge(inc)
    return core.finish(
        PROP, tier, "model_checking", total, t0,
        rule=(f"(a) every sequence of <= {L} fixed-form lines over {len(LINES)} line classes (length limit on; also off when a long line is present) against a reference "
              f"fixed-form lexer; (b) {len(progs)} model programs: free-form tree vs fixed-form tree for plain / comment styles / sequence field / inline doc / labels and every "
              "single continuation break between tokens" + (" and pairs of breaks on a subset" if tier == "thorough" else "") +
              ". distinct_nontrivial = distinct expected outputs (a) + distinct (program, variant, break) (b)"),
        assumptions=[
            "breaks inside a token or character literal, tab form and D debug lines are not generated",
            "comment lines whose second character is '!' (e.g. 'C! text') are not generated (they become doc comments by FORD's conversion)",
            "statements are written with normal blanks (blanks are not significant in fixed form, FORD does not support that)",
        ],
        bounds=dict(L=L, line_classes=len(LINES), programs=len(progs)),
    )
