"""C07 - cross-references resolve to the entity Fortran scoping designates.

For every reference-slot kind x referencing scope (module / module procedure /
internal procedure) x EVERY subset of placements of a same-named declaration
(referencing scope itself, host procedure, host module, use-associated module,
sibling scopes, child scope, unrelated module, external procedure, nowhere)
x letter-case variant x order of the sibling, the object found in the slot after
the real correlate() must be the declaration the reference resolver picks:
innermost scope first, then the host chain (local or use-associated names at each
level); siblings / children / unrelated modules are invisible; nothing visible =>
the slot stays a string.
"""
from __future__ import annotations

import itertools
import time

from mc import core, fordrun
from mc.core import Stats

PROP = "C07"
X = "xq"

SLOTS = {
    # slot: (declaration kind, referencing scopes)
    "vartype": ("type", "MPI"),
    "extends": ("type", "MPI"),
    "ppi-absint": ("absint", "MPI"),
    "ppi-proc": ("proc", "MPI"),
    "call": ("proc", "PI"),
    "binding": ("proc", "M"),
    "final": ("proc", "M"),
    "generic": ("proc", "M"),
    "deferred": ("absint", "M"),
    "constructor": ("proc", "M"),
    # `procedure(x), pointer :: p` where the scopes declare x as different kinds: an abstract interface outside and a procedure
    # (interface body / internal procedure) inside, or the other way round - the innermost declaration is meant whatever its kind
    "ppi-cross-ap": ("absint", "PI"),
    "ppi-cross-pa": ("proc", "PI"),
    # a generic interface named like one of its own specific procedures
    "generic-samename": ("proc", "M"),
    # a deferred binding has an interface but no target: procedures that happen to carry the binding's name are not its target
    "deferred-name": ("proc", "M"),
}

PLACEMENTS = {
    "M": ["module", "used", "child", "other", "external"],
    "P": ["self", "module", "used", "sibling", "child", "other", "external"],
    "I": ["self", "hostproc", "module", "used", "sibling", "sibling2", "other", "external"],
}
CHAIN = {"M": [], "P": ["self"], "I": ["self", "hostproc"]}


def applicable(kind, scope, placement):
    if placement == "external":
        return kind == "proc"
    if kind == "proc" and scope == "P" and placement == "child":
        return False  # internal procedures cannot nest
    return True


def resolve(scope, present):
    for p in CHAIN[scope]:
        if p in present:
            return p
    for p in ("module", "used"):
        if p in present:
            return p
    return None


DEFAULT_USE = ("module", "plain", "direct")
USE_FORMS = ["plain", "only-x", "only-other", "ONLY-other", "Only-x", "rename-away", "two-stmts", "two-stmts-rev"]


def used_visible(useform):
    return useform[1] in ("plain", "only-x", "Only-x", "two-stmts", "two-stmts-rev")


def resolve_use(scope, present, useform):
    """reference resolver when the USE of `usedm` stands at module level or in the referencing scope itself and
    takes one of USE_FORMS: an ONLY list without the name / a rename of the name makes the used declaration invisible;
    a USE in the referencing scope puts the name at the innermost level."""
    present = set(present)
    if not used_visible(useform):
        present.discard("used")
    if useform[0] == "module" or scope == "M":
        return resolve(scope, present)
    if "self" in present:
        return "self"
    if "used" in present:
        return "used"
    return resolve(scope, present - {"used"})


def decl(kind, tag, name, as_iface=False):
    """(spec lines, contains lines) declaring `name` of `kind`, marked with `tag`."""
    if kind == "type":
        return [f"type {name}", f"  integer :: c_{tag}", f"end type {name}"], []
    if kind == "absint":
        return ["abstract interface", f"  subroutine {name}(a_{tag})", f"    integer :: a_{tag}", f"  end subroutine {name}", "end interface"], []
    if as_iface:
        return ["interface", f"  subroutine {name}(a_{tag})", f"    integer :: a_{tag}", f"  end subroutine {name}", "end interface"], []
    return [], [f"subroutine {name}(a_{tag})", f"  integer :: a_{tag}", f"end subroutine {name}"]


def ref_lines(slot, refname):
    """(spec lines, body lines) making the reference."""
    if slot == "vartype":
        return [f"type({refname}) :: refv"], []
    if slot == "extends":
        return [f"type, extends({refname}) :: reft", "end type reft"], []
    if slot in ("ppi-absint", "ppi-proc", "ppi-cross-ap", "ppi-cross-pa"):
        return [f"procedure({refname}), pointer :: refpp"], []
    if slot == "call":
        return [], [f"call {refname}(1)"]
    if slot == "binding":
        return ["type reft", "contains", f"  procedure, nopass :: refb => {refname}", "end type reft"], []
    if slot == "final":
        return ["type reft", "contains", f"  final :: {refname}", "end type reft"], []
    if slot == "generic":
        return ["interface refg", f"  module procedure {refname}", "end interface refg"], []
    if slot == "generic-samename":
        return [f"interface {refname}", f"  module procedure {refname}, gs_other", f"end interface {refname}"], []
    if slot == "deferred":
        return ["type, abstract :: reft", "contains", f"  procedure({refname}), deferred, nopass :: refb", "end type reft"], []
    if slot == "deferred-name":
        return ["abstract interface", "  subroutine dn_abs()", "  end subroutine dn_abs", "end interface",
                "type, abstract :: reft", "contains", f"  procedure(dn_abs), deferred, nopass :: {refname}", "end type reft"], []
    if slot == "constructor":
        # structure constructor: a generic interface with the name of the type
        return [f"type {refname}", "  integer :: ctype", f"end type {refname}"], []
    raise ValueError(slot)


def ind(lines, n=1):
    return ["  " * n + l for l in lines]


def use_line(useform, dname, rname):
    form = useform[1]
    return {"plain": "use usedm", "only-x": f"use usedm, only: {rname}", "Only-x": f"USE usedm, Only : {rname}",
            "only-other": "use usedm, only: filler_u", "ONLY-other": "USE USEDM, ONLY: FILLER_U",
            "rename-away": f"use usedm, hidden_x => {dname}",
            # the same module named by two USE statements of one scope with different only-lists
            "two-stmts": f"use usedm, only: filler_u\nuse usedm, only: {rname}",
            "two-stmts-rev": f"use usedm, only: {rname}\nuse usedm, only: filler_u"}[form]


def build(slot, scope, present, case, order, useform=DEFAULT_USE):
    kind0 = SLOTS[slot][0]
    INNER = ("self", "child", "sibling", "sibling2", "hostproc")

    class _Kind(str):
        pass

    def kind_at(pl):
        if slot == "ppi-cross-ap":
            return "proc" if pl in INNER else "absint"
        if slot == "ppi-cross-pa":
            return "absint" if pl in INNER else "proc"
        return kind0

    kind = kind0
    dname = {"lower": X, "mixed": "Xq", "refupper": X}[case]
    rname = {"lower": X, "mixed": X, "refupper": "XQ"}[case]
    files = {}
    # unrelated + used modules
    lib = []
    reexport = useform[2] == "reexport"
    for mod, pl in (("otherm", "other"), ("usedm", "used")):
        s, c = decl(kind_at(pl), pl, dname) if pl in present else ([], [])
        if slot == "constructor" and pl in present:
            s, c = [f"interface {dname}", f"  module procedure ctor_{pl}", "end interface"], [f"function ctor_{pl}(a_{pl})", f"  integer :: a_{pl}, ctor_{pl}", f"end function ctor_{pl}"]
        if mod == "usedm":
            if reexport:
                # the declaration lives in basem (own file); usedm only passes it on
                base = ["module basem", "  implicit none"] + ind(s) + (["contains"] + ind(c) if c else []) + ["end module basem"]
                files["src/y_base.f90"] = "\n".join(base) + "\n"
                s, c = [], []
            lib += ["module usedm"] + (["  use basem"] if reexport else []) + ["  implicit none", "  integer :: filler_u"] + ind(s) + (["contains"] + ind(c) if c else []) + ["end module usedm", ""]
        else:
            lib += [f"module {mod}", "  implicit none"] + ind(s) + (["contains"] + ind(c) if c else []) + [f"end module {mod}", ""]
    files["src/a_lib.f90"] = "\n".join(lib) + "\n"
    uline = use_line(useform, dname, rname)
    use_in_self = useform[0] == "self" and scope != "M"
    if "external" in present:
        files["src/z_ext.f90"] = "\n".join(decl("proc", "external", dname)[1]) + "\n"
    rs, rb = ref_lines(slot, rname)

    def local(pl, as_iface=False):
        if pl not in present:
            return [], []
        if slot == "constructor":
            return [f"interface {dname}", f"  module procedure ctor_{pl}", "end interface"], [f"function ctor_{pl}(a_{pl})", f"  integer :: a_{pl}, ctor_{pl}", f"end function ctor_{pl}"]
        return decl(kind_at(pl), pl, dname, as_iface)

    # module level
    m_spec, m_cont = local("module")
    if scope == "M":
        m_spec = m_spec + rs
    # sibling module procedure sibq: holds 'sibling' (scope P) or 'sibling2' (scope I)
    sq_tag = "sibling" if scope == "P" else "sibling2"
    sq_s, sq_c = local(sq_tag) if scope in ("P", "I") else ([], [])
    sibq = ["subroutine sibq()"] + ind(sq_s) + (["contains"] + ind(sq_c) if sq_c else []) + ["end subroutine sibq"]
    # host procedure hostp
    if scope == "M":
        p_s, p_c = local("child")  # local to a child scope of the module
    elif scope == "P":
        p_s, p_c = local("self")
    else:
        p_s, p_c = local("hostproc")
    hp = ["subroutine hostp()"] + (ind(uline.split("\n")) if use_in_self and scope == "P" else []) + ind(p_s)
    if scope == "P":
        hp += ind(rs) + ind(rb)
    inner = list(p_c)
    # internal procedures
    if scope == "P":
        c_s, _ = local("child", as_iface=True)
        refi = ["subroutine refi()"] + ind(c_s) + ["end subroutine refi"]
        inner += refi
    elif scope == "I":
        i_s, _ = local("self", as_iface=True)
        j_s, _ = local("sibling", as_iface=True)
        sibj = ["subroutine sibj()"] + ind(j_s) + ["end subroutine sibj"]
        refi = ["subroutine refi()"] + (ind(uline.split("\n")) if use_in_self else []) + ind(i_s) + ind(rs) + ind(rb) + ["end subroutine refi"]
        inner += (sibj + refi) if order == "before" else (refi + sibj)
    if inner:
        hp += ["contains"] + ind(inner)
    hp += ["end subroutine hostp"]
    procs = (sibq + hp) if order == "before" else (hp + sibq)
    if slot == "generic-samename":
        m_cont = m_cont + ["subroutine gs_other(a_gs)", "  real :: a_gs", "end subroutine gs_other"]
    src = ["module hostm"] + ([] if use_in_self else ind(uline.split("\n"))) + ["  implicit none"] + ind(m_spec) + ["contains"] + ind(m_cont) + ind(procs) + ["end module hostm"]
    files["src/m_host.f90"] = "\n".join(src) + "\n"
    return files


def tag_of(obj):
    """placement tag of a resolved object, from its marker component / dummy argument."""
    from ford.sourceform import FortranBase, FortranType

    if obj is None:
        return "<none>"
    if not isinstance(obj, FortranBase):
        return "unresolved"
    if isinstance(obj, FortranType):
        names = [v.name for v in getattr(obj, "local_variables", obj.variables)]
    else:
        proc = getattr(obj, "procedure", None) or obj
        if getattr(proc, "modprocs", None):  # generic interface (constructor)
            mp = proc.modprocs[0]
            proc = mp.procedure if getattr(mp, "procedure", None) is not None else proc
        names = [getattr(a, "name", str(a)) for a in getattr(proc, "args", [])]
    for n in names:
        if n.startswith(("c_", "a_")):
            return n[2:]
    return f"<object {getattr(obj, 'name', '?')} without marker>"


def observe(project, slot, scope):
    hostm = [m for m in project.modules if m.name == "hostm"][0]
    hostp = [p for p in hostm.subroutines if p.name == "hostp"][0]
    if scope == "M":
        ref = hostm
    elif scope == "P":
        ref = hostp
    else:
        ref = [p for p in hostp.subroutines if p.name == "refi"][0]
    if slot == "vartype":
        v = [v for v in ref.variables if v.name == "refv"][0]
        return tag_of(v.proto[0])
    if slot in ("ppi-absint", "ppi-proc", "ppi-cross-ap", "ppi-cross-pa"):
        v = [v for v in ref.variables if v.name == "refpp"][0]
        return tag_of(v.proto[0])
    if slot == "extends":
        t = [t for t in ref.types if t.name == "reft"][0]
        return tag_of(t.extends)
    if slot == "call":
        cs = [c for c in ref.calls if (getattr(c, "name", c) or "").lower() == X]
        if len(cs) != 1:
            return f"<{len(cs)} call entries>"
        return tag_of(cs[0])
    t = [t for t in ref.types if t.name.lower() in ("reft", X)]
    if slot == "binding":
        return tag_of(t[0].boundprocs[0].bindings[0])
    if slot == "deferred":
        return tag_of(t[0].boundprocs[0].proto)
    if slot == "deferred-name":
        from ford.sourceform import FortranBase
        tg = [b for b in t[0].boundprocs[0].bindings if isinstance(b, FortranBase)]
        return tag_of(tg[0]) if tg else "unresolved"
    if slot == "final":
        return tag_of(t[0].finalprocs[0].procedure) if t[0].finalprocs[0].procedure is not None else "unresolved"
    if slot == "constructor":
        return tag_of(t[0].constructor) if t[0].constructor is not None else "unresolved"
    if slot == "generic-samename":
        i = [i for i in ref.interfaces if i.name.lower() == X][0]
        mp = [m_ for m_ in i.modprocs if m_.name.lower() == X]
        if not mp:
            return "<modproc moved>"
        return tag_of(mp[0].procedure) if mp[0].procedure is not None and mp[0].procedure is not i else ("<the generic itself>" if mp[0].procedure is i else "unresolved")
    if slot == "generic":
        i = [i for i in ref.interfaces if i.name == "refg"][0]
        if not i.modprocs:
            return "<modproc moved>"
        return tag_of(i.modprocs[0].procedure) if i.modprocs[0].procedure is not None else "unresolved"


# ---- submodule chains --------------------------------------------------------
SUB_PLACEMENTS = ["leaf", "mid", "midused", "anc", "other", "othermid"]
# othermid: a submodule that is also called `mid`, but of the unrelated module otherm (own file): never an ancestor of leaf
SUB_SLOTS = {"vartype": "type", "extends": "type", "ppi-absint": "absint", "call": "proc", "smp": "smp"}


def sub_resolve(present, depth):
    chain = ["leaf", ("mid", "midused"), "anc"] if depth == 2 else [("mid", "midused"), "anc"]
    for c in chain:
        for p in (c if isinstance(c, tuple) else (c,)):
            if p in present:
                return p
    return None


def build_sub(slot, depth, present, case):
    """module anc <- submodule mid <- (depth 2) submodule leaf; the reference is made in a module
    procedure of the deepest submodule."""
    kind = SUB_SLOTS[slot]
    dname = {"lower": X, "mixed": "Xq", "refupper": X}[case]
    rname = {"lower": X, "mixed": X, "refupper": "XQ"}[case]

    def local(pl):
        if pl not in present:
            return [], []
        if kind == "smp":
            return ["interface", f"  module subroutine {dname}(a_{pl})", f"    integer :: a_{pl}", f"  end subroutine {dname}", "end interface"], []
        return decl(kind, pl, dname)

    files = {}
    lib = []
    for mod, pl in (("otherm", "other"), ("usedm", "midused")):
        sp, c = local(pl)
        lib += [f"module {mod}", "  implicit none"] + ind(sp) + (["contains"] + ind(c) if c else []) + [f"end module {mod}", ""]
    files["src/a_lib.f90"] = "\n".join(lib) + "\n"
    a_s, a_c = local("anc")
    anc = ["module anc", "  implicit none"] + ind(a_s) + ["  interface", "    module subroutine work()", "    end subroutine work", "  end interface"] + (["contains"] + ind(a_c) if a_c else []) + ["end module anc"]
    files["src/b_anc.f90"] = "\n".join(anc) + "\n"
    if kind == "smp":
        refproc = [f"module subroutine {rname}(a_impl)", "  integer :: a_impl", f"end subroutine {rname}"]
    else:
        rs, rb = ref_lines(slot, rname)
        refproc = ["module subroutine work()"] + ind(rs) + ind(rb) + ["end subroutine work"]
    m_s, m_c = local("mid")
    mid = ["submodule (anc) mid"] + (["  use usedm"] if True else []) + ["  implicit none"] + ind(m_s) + ["contains"] + ind(m_c)
    if depth == 1:
        mid += ind(refproc)
    else:
        mid += ind(["subroutine midhelper()", "end subroutine midhelper"])
    mid += ["end submodule mid"]
    files["src/c_mid.f90"] = "\n".join(mid) + "\n"
    if "othermid" in present:
        o_s, o_c = local("othermid")
        files["src/a2_othermid.f90"] = "\n".join(["submodule (otherm) mid", "  implicit none"] + ind(o_s) + ["contains"] + ind(o_c) + ["end submodule mid"]) + "\n"
    if depth == 2:
        l_s, l_c = local("leaf")
        leaf = ["submodule (anc:mid) leaf", "  implicit none"] + ind(l_s) + ["contains"] + ind(l_c) + ind(refproc) + ["end submodule leaf"]
        files["src/d_leaf.f90"] = "\n".join(leaf) + "\n"
    return files


def observe_sub(project, slot, depth):
    sm = [m for m in project.submodules if m.name == ("leaf" if depth == 2 else "mid")][0]
    procs = list(sm.subroutines) + list(getattr(sm, "modsubroutines", [])) + list(getattr(sm, "modprocedures", []))
    if slot == "smp":
        p = [p for p in procs if p.name.lower() == X][0]
        return tag_of(p.module) if p.module not in (True, False, None) else "unresolved"
    ref = [p for p in procs if p.name == "work"][0]
    if slot == "vartype":
        return tag_of([v for v in ref.variables if v.name == "refv"][0].proto[0])
    if slot == "ppi-absint":
        return tag_of([v for v in ref.variables if v.name == "refpp"][0].proto[0])
    if slot == "extends":
        return tag_of([t for t in ref.types if t.name == "reft"][0].extends)
    if slot == "call":
        cs = [c for c in ref.calls if (getattr(c, "name", c) or "").lower() == X]
        return tag_of(cs[0]) if len(cs) == 1 else f"<{len(cs)} call entries>"


def gen_sub_cases(tier):
    for slot, kind in SUB_SLOTS.items():
        for depth in (1, 2):
            pls = [p for p in SUB_PLACEMENTS if not (p == "leaf" and depth == 1) and not (p == "othermid" and depth == 1)]
            if kind == "smp":
                pls = ["anc", "other"]
            if kind == "proc":
                pls = [p for p in pls]
            for k in range(0, len(pls) + 1):
                for present in itertools.combinations(pls, k):
                    if "mid" in present and "midused" in present:
                        continue
                    for case in ("lower", "mixed", "refupper") if tier == "thorough" else ("lower", "mixed"):
                        yield ("sub:" + slot, depth, present, case, "-")


def run_sub_case(st: Stats, case):
    slot, depth, present, cs, _ = case
    slot = slot[4:]
    files = build_sub(slot, depth, set(present), cs)
    want = (sub_resolve(present, depth) if SUB_SLOTS[slot] != "smp" else ("anc" if "anc" in present else None)) or "unresolved"
    stratum = f"submodule/{slot}/depth{depth}"
    inp = dict(case=["sub:" + slot, depth, list(present), cs, "-"], files=files)
    feats = dict(slot=slot, scope=f"submodule-depth{depth}", present=",".join(present), case=cs, order="-", expected=want)
    base = None
    for perm in itertools.permutations(sorted(files)):
        fordrun.FILE_ORDER = lambda fl, perm=perm: sorted(fl, key=lambda p: perm.index("src/" + p.name))
        r = fordrun.build_fast(files, dict(display=["public", "private", "protected"], proc_internals=True))
        fordrun.FILE_ORDER = None
        st.evaluations += 1
        st.transitions += 1
        f = dict(feats, file_order=",".join(x[4] for x in perm))
        if r.error is not None or "ERROR in file" in r.log or "Error parsing" in r.log:
            st.violation("ford-failed", stratum, f, inp, repr(r.error) + r.log[-300:], "parses and correlates")
            st.stratum(stratum, 1)
            continue
        try:
            got = observe_sub(r.project, slot, depth)
        except Exception as e:  # noqa
            got = f"<observe failed: {type(e).__name__}: {e}>"
        st.states.add(core.digest([slot, depth, present, got]))
        if got != want:
            invisible = set(present) - {want}
            f.update(observed=got, leaked_from=got if got in invisible else "")
            clause = "resolved-to-invisible-declaration" if got in invisible else ("visible-declaration-not-found" if got == "unresolved" else "wrong-declaration")
            st.violation(clause, stratum, f, inp, got, want)
            st.stratum(stratum, 1)
        else:
            st.stratum(stratum, 0)
    st.nontrivial.add(core.digest(inp["case"]))


# ---- interface bodies with their own USE ---------------------------------------
IFB_BLOCKS = ["unnamed", "generic", "abstract", "in-procedure", "generic-in-procedure"]
IFB_SLOTS = ["argtype", "result", "ppi-absint"]


def build_ifb(block, slot, present, useform, case, host_use, via="direct"):
    """An interface body is a scope of its own: what it names comes from its own USE (or IMPORT) only."""
    dname = {"lower": X, "mixed": "Xq", "refupper": X}[case]
    rname = {"lower": X, "mixed": X, "refupper": "XQ"}[case]
    kind = "absint" if slot == "ppi-absint" else "type"
    lib = []
    files = {}
    for mod, pl in (("otherm", "other"), ("usedm", "used")):
        sp, c = decl(kind, pl, dname) if pl in present else ([], [])
        if mod == "usedm" and via == "reexport":
            # the declaration lives in zbasem (own file, read last by default); usedm only passes it on
            files["src/z_base.f90"] = "\n".join(["module zbasem", "  implicit none"] + ind(sp) + ["end module zbasem"]) + "\n"
            lib += ["module usedm", "  use zbasem", "  implicit none", "  integer :: filler_u", "end module usedm", ""]
        else:
            lib += [f"module {mod}", "  implicit none", "  integer :: filler_u"] + ind(sp) + [f"end module {mod}", ""]
    files["src/n_lib.f90"] = "\n".join(lib) + "\n"
    uline = use_line(("self", useform, "direct"), dname, rname).split("\n")
    if slot == "argtype":
        body = ["subroutine body(refv)"] + ind(uline) + [f"  type({rname}) :: refv", "end subroutine body"]
    elif slot == "result":
        body = ["function body() result(refv)"] + ind(uline) + [f"  type({rname}) :: refv", "end function body"]
    else:
        body = ["subroutine body(refpp)"] + ind(uline) + [f"  procedure({rname}) :: refpp", "end subroutine body"]
    head = {"unnamed": "interface", "generic": "interface refgen", "abstract": "abstract interface", "in-procedure": "interface", "generic-in-procedure": "interface refgen"}[block]
    blk = [head] + ind(body) + ["end interface"]
    hu = ["  use otherm"] if host_use else []
    if block.endswith("in-procedure"):
        src = ["module hostm"] + hu + ["  implicit none", "contains", "  subroutine hostp()"] + ind(blk, 2) + ["  end subroutine hostp", "end module hostm"]
    else:
        src = ["module hostm"] + hu + ["  implicit none"] + ind(blk) + ["end module hostm"]
    files["src/a_host.f90"] = "\n".join(src) + "\n"
    return files


def observe_ifb(project, block, slot):
    hostm = [m for m in project.modules if m.name == "hostm"][0]
    host = hostm.subroutines[0] if block.endswith("in-procedure") else hostm
    if block == "abstract":
        body = [a for a in host.absinterfaces if a.name == "body"][0].procedure
    elif block.startswith("generic"):
        body = [r for i in host.interfaces if i.name == "refgen" for r in i.routines if r.name == "body"][0]
    else:
        body = [i for i in host.interfaces if getattr(i, "procedure", None) is not None and i.procedure.name == "body"][0].procedure
    if slot == "result":
        v = body.retvar
    else:
        v = [a for a in body.args if getattr(a, "name", a) in ("refv", "refpp")][0]
    proto = getattr(v, "proto", None)
    return tag_of(proto[0]) if proto else "unresolved"


def gen_ifb_cases(tier):
    for block in IFB_BLOCKS:
        for slot in IFB_SLOTS:
            for present in (("used",), ("used", "other"), ("other",), ()):
                for form in USE_FORMS:
                    for case in ("lower", "refupper") if tier == "thorough" else ("lower",):
                        for host_use in (False, True):
                            if host_use and "other" in present:
                                continue  # FORD lets interface bodies see the host's names (no IMPORT needed): keep the host silent about this name
                            yield ("ifb:" + block, slot, present, case, form, host_use)
                        if "used" in present and form in ("plain", "only-x"):
                            # the name reaches usedm through a re-export; the host module is read first
                            yield ("ifb:" + block, slot, present, case, form, False, "reexport")


def run_ifb_case(st: Stats, case):
    block, slot, present, cs, form, host_use, *more = case
    via = more[0] if more else "direct"
    block = block[4:]
    files = build_ifb(block, slot, set(present), form, cs, host_use, via)
    want = "used" if ("used" in present and used_visible(("self", form, "direct"))) else "unresolved"
    stratum = f"interface-body/{block}/{slot}"
    inp = dict(case=["ifb:" + block, slot, list(present), cs, form, host_use] + ([via] if more else []), files=files)
    feats = dict(slot=slot, scope=f"interface-body-{block}", present=",".join(present), case=cs, order="-", expected=want, use_form=form, host_use=host_use, use_via=via)
    for perm in itertools.permutations(sorted(files)):
        fordrun.FILE_ORDER = lambda fl, perm=perm: sorted(fl, key=lambda p: perm.index("src/" + p.name))
        r = fordrun.build_fast(files, dict(display=["public", "private", "protected"], proc_internals=True))
        fordrun.FILE_ORDER = None
        st.evaluations += 1
        st.transitions += 1
        f = dict(feats, file_order=",".join(x[4] for x in perm))
        if r.error is not None or "ERROR in file" in r.log or "Error parsing" in r.log:
            st.violation("ford-failed", stratum, f, inp, repr(r.error) + r.log[-300:], "parses and correlates")
            st.stratum(stratum, 1)
            continue
        try:
            got = observe_ifb(r.project, block, slot)
        except Exception as e:  # noqa
            got = f"<observe failed: {type(e).__name__}: {e}>"
        st.states.add(core.digest([block, slot, present, form, got]))
        if got != want:
            invisible = set(present) - {want}
            f.update(observed=got, leaked_from=got if got in invisible else "")
            clause = "resolved-to-invisible-declaration" if got in invisible else ("visible-declaration-not-found" if got == "unresolved" else "wrong-declaration")
            st.violation(clause, stratum, f, inp, got, want)
            st.stratum(stratum, 1)
        else:
            st.stratum(stratum, 0)
    st.nontrivial.add(core.digest(inp["case"]))


# ---- generic bindings along a chain of type extension ------------------------------------------------
def build_chain(overrides, adds, order):
    """t1 <- t2 <- t3.  t1: procedure sp => impl1; generic g => sp.  overrides: subset of {2, 3} that rebind sp;
    adds: subset of {2, 3} that add a specific sq<k> to the generic.  order: the order of the type definitions."""
    T = {}
    impls = ["function impl1(a)\nclass(t1) :: a\ninteger :: impl1\nimpl1 = 1\nend function impl1"]
    T[1] = ["type t1", "integer :: v", "contains", "procedure :: sp => impl1", "generic :: g => sp", "end type t1"]
    for k in (2, 3):
        L = [f"type, extends(t{k - 1}) :: t{k}"]
        body = []
        if k in overrides:
            body.append(f"procedure :: sp => impl{k}")
            impls.append(f"function impl{k}(a)\nclass(t{k}) :: a\ninteger :: impl{k}\nimpl{k} = {k}\nend function impl{k}")
        if k in adds:
            body += [f"procedure :: sq{k} => implq{k}", f"generic :: g => sq{k}"]
            impls.append(f"function implq{k}(a, x)\nclass(t{k}) :: a\nreal :: x\ninteger :: implq{k}\nimplq{k} = {k}\nend function implq{k}")
        if body:
            L += ["contains"] + body
        L.append(f"end type t{k}")
        T[k] = L
    src = ["module chainm", "implicit none"]
    for k in order:
        src += T[k]
    src += ["contains"] + impls + ["end module chainm"]
    return {"src/chain.f90": "\n".join(src) + "\n"}


def expected_chain(overrides, adds):
    exp = {}
    for k in (1, 2, 3):
        owner = max([1] + [o for o in overrides if o <= k])
        g = {("sp", f"t{owner}", f"impl{owner}")}
        for a in adds:
            if a <= k:
                g.add((f"sq{a}", f"t{a}", f"implq{a}"))
        exp[f"t{k}"] = sorted(g)
    return exp


def run_chain_case(st: Stats, case):
    _, overrides, adds, order = case
    files = build_chain(set(overrides), set(adds), order)
    r = fordrun.build_fast(files, dict(display=["public", "private", "protected"], proc_internals=True))
    st.evaluations += 1
    st.transitions += 1
    stratum = "type-chain/generic"
    inp = dict(case=["chain", list(overrides), list(adds), list(order)], files=files)
    feats = dict(slot="inherited-generic", scope="type-chain", present="", case="", order="".join(map(str, order)), overrides=",".join(map(str, overrides)), adds=",".join(map(str, adds)))
    st.nontrivial.add(core.digest(inp["case"]))
    if r.error is not None or "ERROR in file" in r.log or "Error parsing" in r.log:
        st.violation("ford-failed", stratum, feats, inp, repr(r.error) + r.log[-300:], "parses and correlates")
        st.stratum(stratum, 1)
        return
    from ford.sourceform import FortranBase

    got = {}
    for t in r.project.modules[0].types:
        gs = [b for b in t.boundprocs if b.generic and b.name == "g"]
        rec = set()
        for gnr in gs:
            for b in gnr.bindings:
                if isinstance(b, FortranBase):
                    tgt = b.bindings[0] if getattr(b, "bindings", None) else None
                    rec.add((b.name, getattr(b.parent, "name", "?"), getattr(tgt, "name", str(tgt))))
                else:
                    rec.add((str(b), "<unresolved>", ""))
        got[t.name] = sorted(rec) if len(gs) == 1 else f"<{len(gs)} generics named g>"
    want = {k: [tuple(x) for x in v] for k, v in expected_chain(set(overrides), set(adds)).items()}
    st.states.add(core.digest(got))
    bad = 0
    for tname in sorted(want):
        if got.get(tname) != want[tname]:
            bad += 1
            st.violation("wrong-declaration", stratum, dict(feats, type=tname, expected=str(want[tname]), observed=str(got.get(tname))), inp, {tname: got.get(tname)}, {tname: want[tname]})
            break
    st.stratum(stratum, bad)


def gen_chain_cases(tier):
    subsets = [(), (2,), (3,), (2, 3)]
    for ov in subsets:
        for ad in subsets:
            for order in itertools.permutations((1, 2, 3)):
                yield ("chain", ov, ad, order)


# ---- members of a NAMELIST group: the variable of the innermost scope that declares the name ----------------------------------
NL_HOST = ["none", "dummy", "local", "result"]


def run_nlmember_case(st: Stats, case):
    """`namelist /grp/ xq` in a procedure / in an internal procedure: which `xq` is meant.  Candidates: a module variable, the
    host procedure's dummy argument / local variable / function result, the internal procedure's own local variable or dummy."""
    _, in_module, host, inner, where = case
    if where == "host" and (inner != "none"):
        return
    hostkind = "function" if host == "result" else "subroutine"
    harg = "xq" if host == "dummy" else ""
    L = ["module m", "  implicit none"] + (["  integer :: xq", "  !! tag:module"] if in_module else []) + ["contains"]
    L.append(f"  {hostkind} hostproc({harg})" + (" result(xq)" if host == "result" else ""))
    if host in ("dummy", "local", "result"):
        L += ["    real :: xq", f"    !! tag:host-{host}"]
    if host != "result" and hostkind == "function":
        pass
    if where == "host":
        L += ["    namelist /grp/ xq"]
    L += ["  contains", "    subroutine inner(" + ("xq" if inner == "dummy" else "") + ")"]
    if inner in ("dummy", "local"):
        L += ["      logical :: xq", f"      !! tag:inner-{inner}"]
    if where == "inner":
        L += ["      namelist /grp/ xq"]
    L += ["    end subroutine inner", f"  end {hostkind} hostproc", "end module m"]
    src = "\n".join(L) + "\n"
    r = fordrun.build_fast({"src/m.f90": src}, dict(display=["public", "private", "protected"], proc_internals=True))
    st.evaluations += 1
    st.transitions += 1
    stratum = f"namelist-member/{where}"
    inp = dict(case=list(case), files={"src/m.f90": src})
    feats = dict(slot="namelist-member", scope=where, present=f"module={in_module},host={host},inner={inner}", case="", order="")
    st.nontrivial.add(core.digest(inp["case"]))
    if r.error is not None or "ERROR in file" in r.log or "Error parsing" in r.log or not r.project.modules:
        st.violation("ford-failed", stratum, feats, inp, repr(r.error) + r.log[-300:], "parses and correlates")
        st.stratum(stratum, 1)
        return
    if where == "inner" and inner != "none":
        want = f"tag:inner-{inner}"
    elif host != "none":
        want = f"tag:host-{host}"
    elif in_module:
        want = "tag:module"
    else:
        want = "<unresolved>"
    hp = (r.project.modules[0].subroutines + r.project.modules[0].functions)[0]
    scope = hp if where == "host" else hp.subroutines[0]
    nls = getattr(scope, "namelists", [])
    if len(nls) != 1 or len(nls[0].variables) != 1:
        got = f"<{len(nls)} namelists>"
    else:
        v = nls[0].variables[0]
        got = "<unresolved>" if isinstance(v, str) else next((l.strip() for l in getattr(v, "doc_list", []) if "tag:" in l), "<untagged>")
    st.states.add(core.digest([case, got]))
    if got != want:
        st.violation("wrong-declaration", stratum, dict(feats, expected=want, observed=got), inp, got, want)
        st.stratum(stratum, 1)
    else:
        st.stratum(stratum, 0)


def gen_nlmember_cases(tier):
    for in_module in (False, True):
        for host in NL_HOST:
            for inner in ("none", "local", "dummy"):
                for where in ("host", "inner"):
                    if where == "host" and inner != "none":
                        continue
                    yield ("nlmember", in_module, host, inner, where)


def gen_cases(tier):
    yield from gen_nlmember_cases(tier)
    yield from gen_sub_cases(tier)
    yield from gen_ifb_cases(tier)
    yield from gen_chain_cases(tier)
    yield from gen_main_cases(tier)


def gen_main_cases(tier):
    for slot, (kind, scopes) in SLOTS.items():
        for scope in scopes:
            pls = [p for p in PLACEMENTS[scope] if applicable(kind, scope, p)]
            if slot == "constructor":
                pls = [p for p in pls if p in ("module", "used", "other")]
            maxk = len(pls) if tier == "thorough" else 3
            for k in range(0, maxk + 1):
                for present in itertools.combinations(pls, k):
                    if "module" in present and "used" in present:
                        continue  # a use-associated name cannot be redeclared in the same scope
                    want = resolve(scope, present)
                    if slot == "generic-samename" and "module" not in present:
                        continue  # the specific procedure of that name is the module's own
                    if slot == "generic" and want is None:
                        continue  # MODULE PROCEDURE must name an accessible procedure
                    if slot in ("binding", "final", "generic") and want == "used" and False:
                        continue
                    for case in ("lower", "mixed", "refupper"):
                        for order in ("before", "after"):
                            if order == "after" and not ({"sibling", "sibling2"} & set(present)) and tier != "thorough":
                                continue
                            yield (slot, scope, present, case, order)
                    # the USE statement that brings `used` in: other forms / in the referencing scope itself / re-exported
                    if "used" not in present or slot in ("constructor", "generic-samename"):
                        continue
                    for where in ("module", "self") if scope != "M" else ("module",):
                        for form in USE_FORMS:
                            for via in ("direct", "reexport"):
                                uf = (where, form, via)
                                if uf == DEFAULT_USE:
                                    continue
                                if where == "self" and "self" in present and used_visible(uf):
                                    continue  # a use-associated name cannot be redeclared in the same scope
                                if slot == "generic" and resolve_use(scope, present, uf) is None:
                                    continue
                                for case in ("lower", "refupper") if tier == "thorough" else ("lower",):
                                    yield (slot, scope, present, case, "before", uf)


def run_case(st: Stats, case, only_perm=None):
    slot, scope, present, cs, order, *rest = case
    useform = tuple(rest[0]) if rest else DEFAULT_USE
    files = build(slot, scope, set(present), cs, order, useform)
    names = sorted(files)
    # the re-export chain makes the order in which modules are correlated matter: every file order
    perms = [tuple(only_perm)] if only_perm else (list(itertools.permutations(names)) if useform[2] == "reexport" else [tuple(names)])
    for perm in perms:
        fordrun.FILE_ORDER = lambda fl, perm=perm: sorted(fl, key=lambda p: perm.index("src/" + p.name))
        try:
            _run_one(st, case, files, perm, useform)
        finally:
            fordrun.FILE_ORDER = None
    st.nontrivial.add(core.digest([slot, scope, present, cs, order, useform]))


def _run_one(st: Stats, case, files, perm, useform):
    slot, scope, present, cs, order, *rest = case
    r = fordrun.build_fast(files, dict(display=["public", "private", "protected"], proc_internals=True))
    st.evaluations += 1
    st.transitions += 1
    want = resolve_use(scope, present, useform) or "unresolved"
    if slot == "deferred-name":
        want = "unresolved"
    stratum = f"{slot}/{scope}" + ("" if useform == DEFAULT_USE else "/use-forms")
    inp = dict(case=[slot, scope, list(present), cs, order] + ([list(useform)] if rest else []), files=files, order=list(perm))
    invisible = sorted(set(present) - {want})
    feats = dict(slot=slot, scope=scope, present=",".join(present), case=cs, order=order, expected=want,
                 use_where=useform[0], use_form=useform[1], use_via=useform[2], file_order=",".join(x[4] for x in perm))
    if r.error is not None or "ERROR in file" in r.log or "Error parsing" in r.log:
        st.violation("ford-failed", stratum, feats, inp, repr(r.error) + r.log[-300:], "parses and correlates")
        st.stratum(stratum, 1)
        return
    try:
        got = observe(r.project, slot, scope)
    except Exception as e:  # noqa
        got = f"<observe failed: {type(e).__name__}: {e}>"
    st.states.add(core.digest([slot, scope, present, useform, got]))
    if got != want:
        feats.update(observed=got, leaked_from=got if got in invisible else "")
        clause = "resolved-to-invisible-declaration" if got in invisible and got not in ("unresolved",) else (
            "visible-declaration-not-found" if got == "unresolved" else "wrong-declaration")
        st.violation(clause, stratum, feats, inp, got, want)
        st.stratum(stratum, 1)
    else:
        st.stratum(stratum, 0)
    if len(st.samples) < 2 and len(present) == 2:
        st.sample(dict(case=inp["case"], host_module=files["src/m_host.f90"], expected=want))


def work(chunk):
    st = Stats()
    for case in chunk:
        if str(case[0]).startswith("sub:"):
            run_sub_case(st, case)
        elif str(case[0]).startswith("ifb:"):
            run_ifb_case(st, case)
        elif case[0] == "chain":
            run_chain_case(st, case)
        elif case[0] == "nlmember":
            run_nlmember_case(st, case)
        else:
            run_case(st, case)
    return st


def replay(path):
    import json

    core.use_repo()
    rec = json.loads(open(path).read())
    st = Stats()
    if rec["input"]["case"][0] == "nlmember":
        run_nlmember_case(st, tuple(rec["input"]["case"]))
        print(rec["input"]["files"]["src/m.f90"])
        for v in st.violations:
            print("REPRODUCED", v["clause"], "got", v["observed"], "want", v["expected"])
        return 1 if st.violations else 0
    if rec["input"]["case"][0] == "chain":
        c = rec["input"]["case"]
        run_chain_case(st, ("chain", tuple(c[1]), tuple(c[2]), tuple(c[3])))
        print(rec["input"]["files"]["src/chain.f90"])
        for v in st.violations:
            print("REPRODUCED", v["clause"], "got", v["observed"], "want", v["expected"])
        return 1 if st.violations else 0
    slot, scope, present, cs, order, *rest = rec["input"]["case"]
    if str(slot).startswith("sub:"):
        run_sub_case(st, (slot, scope, tuple(present), cs, order))
    elif str(slot).startswith("ifb:"):
        run_ifb_case(st, (slot, scope, tuple(present), cs, order) + tuple(rest))

    else:
        run_case(st, (slot, scope, tuple(present), cs, order) + ((tuple(rest[0]),) if rest else ()), only_perm=rec["input"].get("order"))
    for f, t in rec["input"]["files"].items():
        print("-----", f)
        print(t)
    for v in st.violations:
        print("REPRODUCED", v["clause"], "got", v["observed"], "want", v["expected"])
    return 1 if st.violations else 0


def main(tier, replay_path=None):
    if replay_path:
        return replay(replay_path)
    t0 = time.time()
    core.use_repo()
    cases = list(gen_cases(tier))
    k = core.SEED % 13
    cases = cases[k:] + cases[:k]
    nchunks = core.WORKERS * 8
    chunks = [c for c in (cases[i::nchunks] for i in range(nchunks)) if c]
    total = Stats()
    for st in core.pmap(work, chunks):
        total.merge(st)
    return core.finish(
        PROP, tier, "model_checking", total, t0,
        rule=("for each of 10 reference-slot kinds x referencing scope x every subset "
              + ("" if tier == "thorough" else "of size <= 3 ") +
              "of the applicable declaration placements x 3 letter-case variants x sibling order; where the used module declares the name: "
              "x USE form {plain, only-x, Only-x, only-other, ONLY-other, rename-away} x USE at module level / in the referencing scope x declared directly / "
              "re-exported from a third module (every file order); "
              "distinct_nontrivial = distinct cases; states = distinct (slot, scope, placements, resolved tag)"),
        assumptions=[
            "a name that is use-associated into a scope is not also declared there (illegal Fortran)",
            "MODULE PROCEDURE in a generic interface always names an accessible procedure",
            "submodule parent / separate module procedure pairing are covered by their own strata in later rounds",
        ],
        bounds=dict(cases=len(cases)),
    )
