"""C02 - statement and doc extraction depends only on Fortran lexical rules.

Explicit-state exploration of the product machine  FortranReader x reference
free-form lexer (mc/reflex.py), fed one physical line at a time:

  space 1 (line BFS):  all sequences of <= L physical lines over a line alphabet;
     a prefix is expanded only if the pair (reader state, reference state, output lag)
     - ids renamed canonically - has not been seen (exact-state de-duplication);
  space 2 (token product): all sequences of <= T tokens (identifiers, operators, literals of
     both quote kinds with embedded !;& / other quote / doubled quote / split by a
     continuation, `;`, continuations, comments, doc comments, newlines).

Oracle: statements equal modulo blanks outside literals, literals byte-identical,
doc lines identical, all in the same order; no exception on well-formed input.
"""
from __future__ import annotations

import itertools
import re
import sys
import time

from mc import core
from mc.core import Stats
from mc.reflex import RefFree, classify_ford_item, norm_items

PROP = "C02"
MARKS = dict(docmark="!", predocmark=">", docmark_alt="*", predocmark_alt="|")

# physical line alphabet; {n} is replaced by the 1-based position of the line
LINES = [
    ("code", "x{n} = {n}"),
    ("code_amp", "y{n} = f({n}, &"),
    ("amp_code", "   & z{n})"),
    ("amp_code_amp", "  &w{n}, &"),
    ("blank", ""),
    ("indented", "      v{n} = {n}"),
    ("code_comment", "x{n} = {n} ! c{n}"),
    ("comment", "  ! c{n} isn't code; x = 'q' &"),
    ("doc", "!! d{n} isn't \"code\""),
    ("code_doc", "x{n} = {n} !! d{n}"),
    ("code_amp_doc", "y{n} = g({n}, & !! d{n}"),
    ("code_amp_comment", "y{n} = g({n}, & ! c{n}"),
    ("two_stmts", "x{n} = {n}; u{n} = -{n}"),
    ("stmt_semicolon", "x{n} = {n};"),
    ("predoc", "!> p{n}"),
    ("lit_specials", "s{n} = 'a!b;c&d\"e''f if (x) call y' // \"g'h\"\"i!;&\" ! c{n}"),
    ("lit_empty", "s{n} = '' // \"\" ; t{n} = 'x' !! d{n}"),
    ("lit_empty_amp", "call p{n}('', & ! c{n}"),
    ("amp_lit_doc", "   & 'it''s') !! d{n}"),
    ("lit_open_s", "s{n} = 'ab&"),
    ("lit_close_s_comment", "   &cd' ! c{n}"),
    ("lit_close_s_doc", "   &cd' !! d{n}"),
    ("lit_close_s_stmt", "&c!d' ; u{n} = 1"),
    ("lit_mid_s", "  &e!f;g &"),
    ("lit_close_s_dq_bang", "   &c''d!e' !! d{n}"),
    # the literal is closed and a comment follows without any blank
    ("lit_close_s_nb_comment", "   &cd'! c{n}"),
    ("lit_close_s_nb_doc", "&cd'!! d{n}"),
    ("lit_close_s_code_nb", "  &cd', {n}!c{n}"),
    ("lit_mid_s_dq", "  &e''f!!g &"),
    ("lit_open_d", "s{n} = \"a'b&"),
    ("lit_close_d_dq_bang", "   &c\"\"d!!e\" ! c{n}"),
    ("lit_close_d_doc", "   &c''d\" !! d{n}"),
    ("cpp", "#define X{n} 'a"),
    ("bang_in_lit_amp", "y{n} = h('!', \"!!\", &"),
    # alternative marks: only the first line of the block carries the mark
    ("cpp_indented", "   #ifdef Y{n}"),
    ("doc_alt", "!* a{n} isn't \"code\""),
    ("predoc_alt", "  !| q{n}"),
]

NUM_RE = re.compile(r"\d+")


def canon_ids(obj):
    """Rename numbers by first appearance so states differing only in line ids merge."""
    s = repr(obj)
    m = {}

    def sub(mt):
        return m.setdefault(mt.group(0), f"#{len(m)}")

    return NUM_RE.sub(sub, s)


class Feeder:
    def __init__(self, lines, emitted):
        self.lines = lines
        self.i = 0
        self.snap = None
        self.emitted = emitted
        self.n_emitted = None

    def __iter__(self):
        return self

    def __next__(self):
        if self.i < len(self.lines):
            l = self.lines[self.i]
            self.i += 1
            return l + "\n"
        if self.snap is None:
            want = ("linebuffer", "continued", "reading_predoc", "reading_predoc_alt")
            self.snap = "NOSNAP"
            f = sys._getframe(1)
            for _ in range(4):  # (the reader may wrap the file in generators of its own: the frame of FortranReader.__next__ is a few levels up)
                if f is None:
                    break
                loc = f.f_locals
                if f.f_code.co_name == "__next__" and all(k in loc for k in want):
                    self.snap = tuple(loc[k] for k in want)
                    break
                f = f.f_back
            self.n_emitted = len(self.emitted)
        raise StopIteration

    def close(self):
        pass


def run_ford(lines):
    """Run the real FortranReader over in-memory lines.  Returns
    (items, error, state snapshot at the request for the line after the last, emitted-before-snapshot)."""
    import ford.reader as fr

    emitted = []
    feeder = Feeder(lines, emitted)
    fr.open = lambda *a, **k: feeder
    err = None
    reader = None
    try:
        reader = fr.FortranReader("mem.f90", **MARKS)
        for item in reader:
            emitted.append(item)
    except Exception as e:  # noqa
        err = f"{type(e).__name__}: {str(e)[:80]}"
    finally:
        del fr.open
    snap = None
    if reader is not None and feeder.snap not in (None, "NOSNAP") and err is None:
        snap = (
            feeder.snap,
            tuple(reader.docbuffer),
            tuple(reader.pending),
            reader.prevdoc,
            reader.reading_alt,
        )
    return emitted, err, snap, feeder.n_emitted


def run_ref(lines):
    ref = RefFree(MARKS["docmark"], MARKS["predocmark"], MARKS["docmark_alt"], MARKS["predocmark_alt"])
    for l in lines:
        ref.feed(l)
    return ref


def render(seq):
    return [LINES[k][1].format(n=i + 1) for i, k in enumerate(seq)]


def lag(a, b):
    """a, b: normalised item lists.  ('=', ()) | ('impl+', rest) | ('ref+', rest) | None if diverged."""
    n = min(len(a), len(b))
    if a[:n] != b[:n]:
        return None
    if len(a) > n:
        return ("impl+", tuple(a[n:]))
    if len(b) > n:
        return ("ref+", tuple(b[n:]))
    return ("=", ())


def first_diff(a, b):
    for i, (x, y) in enumerate(itertools.zip_longest(a, b)):
        if x != y:
            return i, x, y
    return None


def diff_clause(a, b):
    d = first_diff(a, b)
    if d is None:
        return "equal"
    _, x, y = d
    sa = [t for k, t in a if k == "s"]
    sb = [t for k, t in b if k == "s"]
    da = [t for k, t in a if k == "d"]
    db = [t for k, t in b if k == "d"]
    if sa != sb:
        return "statements-differ"
    if da != db:
        return "doc-lines-differ"
    return "order-differs"


def judge(lines, st: Stats, site, seqname):
    """Run both machines on `lines`; record a violation if they disagree on a
    judged input.  Returns (key or None, ref)."""
    items, err, snap, n_before = run_ford(lines)
    ref = run_ref(lines)
    st.evaluations += 1
    st.transitions += 1
    if ref.ill:
        st.unjudged += 1
        st.stratum(site + "/ill-formed")
        return None, ref
    impl = norm_items([classify_ford_item(i) for i in items])
    want_prefix = norm_items(ref.out)
    feats = {"features": ",".join(sorted(ref.features)), "complete": ref.complete()}
    inp = {"lines": lines, "shape": seqname}
    if err is not None:
        st.violation("exception-on-wellformed-input", site, feats, inp, err, "no exception")
        st.stratum(site, 1)
        return None, ref
    if ref.complete():
        ok = impl == want_prefix
        st.stratum(site, 0 if ok else 1)
        st.nontrivial.add(core.digest(canon_ids(want_prefix)))
        if not ok:
            st.violation(diff_clause(impl, want_prefix), site, feats, inp, impl, want_prefix)
            return None, ref
    else:
        st.stratum(site + "/incomplete-prefix")
    # state key for de-duplication
    before = norm_items([classify_ford_item(i) for i in items[: n_before or 0]])
    lg = lag(before, want_prefix)
    if lg is None and ref.complete() is False:
        # outputs already emitted in a different order / with different content
        # (an incomplete prefix: only judge items both have emitted)
        n = min(len(before), len(want_prefix))
        if before[:n] != want_prefix[:n]:
            st.violation("prefix-divergence", site, feats, inp, before, want_prefix)
            st.stratum(site, 1)
            return None, ref
    if snap is None:
        key = ("nosnap", tuple(lines))
    else:
        key = canon_ids((snap, ref.state(), lg))
    return key, ref


def bfs_shard(args):
    first, L = args
    st = Stats()
    seen = set()
    frontier = [(first,)]
    depth = 1
    root = True
    while frontier and depth <= L:
        nxt = []
        for seq in frontier:
            if not root:
                pass
            lines = render(seq)
            key, ref = judge(lines, st, "line-seq", [LINES[k][0] for k in seq])
            if key is None:
                continue  # ill-formed or violating prefix: not extended
            if key in seen:
                st.extra["pruned"] = st.extra.get("pruned", 0) + 1
                continue
            seen.add(key)
            if len(seq) <= 3:
                st.sample({"lines": lines})
            if depth < L:
                for k in range(len(LINES)):
                    nxt.append(seq + (k,))
        frontier = nxt
        depth += 1
    st.states = {core.digest(k) for k in seen}
    return st


# ---- token space -----------------------------------------------------------

def literal_tokens():
    toks = []
    for q, o in (("'", '"'), ('"', "'")):
        toks += [
            f"{q}{q}",
            f"{q}x{q}",
            f"{q}!;&{q}",
            f"{q}a{o}b{q}",
            f"{q}a{q}{q}b{q}",
            f"{q}if (x) call y!{q}",
            f"{q}ab&\n   &cd{q}",
            f"{q}a!&\n&;b{q}",
        ]
    return toks


TOKENS = (
    ["a{n}", "=", "(", ")", ","]
    + literal_tokens()
    + [";", "&\n", "&\n  &", "! c{n}\n", "!! d{n}\n", "\n"]
)


def token_shard(args):
    first, T = args
    st = Stats()
    for t in range(1, T + 1):
        for rest in itertools.product(range(len(TOKENS)), repeat=t - 1):
            seq = (first,) + rest
            text = " ".join(TOKENS[k].replace("{n}", str(i + 1)) for i, k in enumerate(seq))
            lines = text.split("\n")
            judge(lines, st, "token-seq", None)
            if t == 3 and len(st.samples) < 2:
                st.sample({"lines": lines})
    return st


# ---- space 3: literal masking in the parser (tree level) -----------------------
LITS = ["'a'", "'long string here'", "''", "'it''s, here'", '"say ""hi"" = now"', '"x, y = 3"', "'q(1) = f(2)'",
        "'!not;comment&'", '""', "'real :: z'", "'end module m'", "\"contains\"", "'call sub(1)'", "'Mixed CASE Text; CALL Sub(X)'", "'a,b'", "\"(a,i0,';',a)\""]


def literal_shard(args):
    """all ordered pairs / (first element fixed) triples of literals in one declaration and one executable statement:
    the initial values must be the literals verbatim, no extra entity or call may appear."""
    from mc import canon, fordrun

    first, triples = args
    st = Stats()
    combos = [(first, b) for b in range(len(LITS))]
    if triples:
        combos += [(first, b, c) for b in range(len(LITS)) for c in range(len(LITS))]
    for combo in combos:
        lits = [LITS[k] for k in combo]
        names = [f"v{i}" for i in range(len(lits))]
        decl = "character(len=*), parameter :: " + ", ".join(f"{n} = {l}" for n, l in zip(names, lits))
        src = ("module m\n  implicit none\n  " + decl + "\ncontains\n  subroutine p()\n    print *, " + ", ".join(lits) +
               "\n    call q(" + ", ".join(lits) + ")\n  end subroutine p\n  subroutine q(a, b, c)\n    character(*) :: a, b\n"
               "    character(*), optional :: c\n  end subroutine q\nend module m\n")
        for lower in (False, True):  # the `lower` option lower-cases code, never the text of character literals
            r = fordrun.build_fast({"src/m.f90": src}, dict(display=["public", "private", "protected"], proc_internals=True, lower=lower))
            st.evaluations += 1
            st.transitions += 1
            site = "literal-masking" + ("/lower" if lower else "")
            inp = {"lines": src.split("\n"), "shape": "literals:" + "|".join(lits), "lower": lower}
            feats = {"features": "literals", "complete": True, "lower": lower}
            st.nontrivial.add(core.digest([lits, lower]))
            if r.error is not None or not r.project or not r.project.modules or "ERROR in file" in r.log or "Error parsing" in r.log:
                st.violation("exception-on-wellformed-input", site, feats, inp, repr(r.error) + r.log[-200:], "parses")
                st.stratum(site, 1)
                continue
            m = r.project.modules[0]
            got = {v.name: (canon.nb(v.initial) or "<none>").replace("\\\\", "\\") for v in m.variables}
            want = {n: canon.nb(l) for n, l in zip(names, lits)}
            p = [x for x in m.subroutines if x.name == "p"]
            calls = sorted((getattr(c, "name", c) or "").lower() for c in p[0].calls) if p else None
            procs = sorted(x.name for x in list(m.subroutines) + list(m.functions))
            obs = dict(initials=got, calls=calls, procs=procs, types=[t.name for t in m.types])
            exp = dict(initials=want, calls=["q"], procs=["p", "q"], types=[])
            st.states.add(core.digest(obs))
            if obs != exp:
                st.violation("literal-text-interpreted-or-altered", site, feats, inp, obs, exp)
                st.stratum(site, 1)
            else:
                st.stratum(site, 0)
    # many literals in one statement (the masking pass numbers them: two-digit numbers must be put back as well)
    for n, layout in itertools.product((9, 10, 11, 12, 13, 23), ("one-line", "continued")):
        lits = [LITS[(first + j) % len(LITS)] for j in range(n)]
        sep = ", &\n      " if layout == "continued" else ", "
        names = [f"v{i}" for i in range(n)]
        src = ("module m\n  implicit none\n  character(len=30), parameter :: arr(" + str(n) + ") = [" + sep.join(lits) + "]\n"
               "  character(len=*), parameter :: " + sep.join(f"{a} = {l}" for a, l in zip(names, lits)) + "\nend module m\n")
        r = fordrun.build_fast({"src/m.f90": src}, dict(display=["public", "private", "protected"]))
        st.evaluations += 1
        st.transitions += 1
        site = "literal-masking/many"
        inp = {"lines": src.split("\n"), "shape": f"{n} literals, {layout}", "lower": False}
        feats = {"features": "many-literals", "complete": True, "n": n, "layout": layout}
        st.nontrivial.add(core.digest([lits, layout]))
        if r.error is not None or not r.project or not r.project.modules or "ERROR in file" in r.log or "Error parsing" in r.log:
            st.violation("exception-on-wellformed-input", site, feats, inp, repr(r.error) + r.log[-200:], "parses")
            st.stratum(site, 1)
            continue
        got = {v.name: (canon.nb(v.initial) or "<none>").replace("\\\\", "\\") for v in r.project.modules[0].variables}
        want = {a: canon.nb(l) for a, l in zip(names, lits)}
        want["arr"] = canon.nb("[" + ", ".join(lits) + "]")
        st.states.add(core.digest(got))
        if got != want:
            bad = sorted(k for k in set(got) | set(want) if got.get(k) != want.get(k))
            st.violation("literal-text-interpreted-or-altered", site, feats, inp, {k: got.get(k) for k in bad[:3]}, {k: want.get(k) for k in bad[:3]})
            st.stratum(site, 1)
        else:
            st.stratum(site, 0)
    return st


# ---- space 4: quotes inside documentation lines are not syntax (tree level) --------------------------------------------
DOCTEXTS = ["see 'read_deck' and don't skip it's notes", 'say "hi" to "them" twice', "a 'b' \"c\" 'd' e", "it's", "x = 'y'; call z('w') ! not a comment",
            "50% of 'all' cases & more", "plain words only"]
DOCPOS = ["file-header", "module-doc", "after-use", "after-implicit", "variable-doc", "after-contains", "proc-doc", "after-declaration-in-proc", "after-exec",
          "after-end-sub", "after-end-module", "predoc-variable", "predoc-proc"]


def docquote_shard(args):
    from mc import fordrun

    pos_list = args
    st = Stats()
    for pos in pos_list:
        for ti, text in enumerate(DOCTEXTS):
            for ti2, text2 in enumerate(DOCTEXTS[:3]):
                d = [f"!! TRQ1 {text}", f"!! TRQ2 {text2}"]
                pre = [f"!> TRQ1 {text}", f"!> TRQ2 {text2}"]
                at = lambda p: d if pos == p else []  # noqa
                L = (at("file-header") + ["module m"] + at("module-doc") + ["  use iso_fortran_env"] + at("after-use") + ["  implicit none"] + at("after-implicit")
                     + (pre if pos == "predoc-variable" else []) + ["  integer :: v"] + at("variable-doc") + ["contains"] + at("after-contains")
                     + (pre if pos == "predoc-proc" else []) + ["  subroutine p(a)"] + at("proc-doc") + ["    integer :: a"] + at("after-declaration-in-proc")
                     + ["    a = 1"] + at("after-exec") + ["  end subroutine p"] + at("after-end-sub") + ["end module m"] + at("after-end-module"))
                src = "\n".join(L) + "\n"
                r = fordrun.build_fast({"src/m.f90": src}, dict(display=["public", "private", "protected"], proc_internals=True))
                st.evaluations += 1
                st.transitions += 1
                site = "doc-quotes/" + pos
                inp = {"lines": L, "shape": f"docquote:{pos}:{ti}:{ti2}"}
                feats = {"features": "doc-quotes", "complete": True, "position": pos}
                st.nontrivial.add(core.digest([pos, ti, ti2]))
                if r.error is not None or not r.project or not r.project.modules or "ERROR in file" in r.log or "Error parsing" in r.log:
                    st.violation("exception-on-wellformed-input", site, feats, inp, repr(r.error) + r.log[-200:], "parses")
                    st.stratum(site, 1)
                    continue
                docs = []
                m = r.project.modules[0]
                ents = [r.project.files[0], m] + list(m.variables) + list(m.subroutines) + [a for p_ in m.subroutines for a in p_.args]
                for e in ents:
                    for line in getattr(e, "doc_list", []) or []:
                        if "TRQ" in line:
                            docs.append((type(e).__name__, line.strip()))
                got = sorted(l for _, l in docs)
                want = sorted([f"TRQ1 {text}", f"TRQ2 {text2}"])
                st.states.add(core.digest([pos, [t for t, _ in docs]]))
                # a documentation line may be attached to whatever entity FORD's rules say, or to none; its text is never altered
                altered = [l for l in got if l not in want]
                if altered:
                    st.violation("doc-lines-differ", site, feats, inp, got, want)
                    st.stratum(site, 1)
                else:
                    st.stratum(site, 0)
    return st


def replay(path):
    import json

    core.use_repo()
    rec = json.loads(open(path).read())
    st = Stats()
    if rec["site"].startswith(("literal-masking", "doc-quotes")):
        print("\n".join(rec["input"]["lines"]))
        print("observed", rec["observed"], "expected", rec["expected"])
        return 1
    judge(rec["input"]["lines"], st, rec["site"], rec["input"].get("shape"))
    for v in st.violations:
        print("REPRODUCED", v["clause"], v["observed"], "expected", v["expected"])
    return 1 if st.violations else 0


def main(tier, replay_path=None):
    if replay_path:
        return replay(replay_path)
    t0 = time.time()
    core.use_repo()
    L, T = (4, 4) if tier == "quick" else (5, 5)
    order = list(range(len(LINES)))
    order = order[core.SEED % len(order):] + order[: core.SEED % len(order)]  # shard order only
    total = Stats()
    for st in core.pmap(bfs_shard, [(k, L) for k in order]):
        total.merge(st)
    for st in core.pmap(token_shard, [(k, T) for k in range(len(TOKENS))]):
        total.merge(st)
    for st in core.pmap(literal_shard, [(k, tier == "thorough") for k in range(len(LITS))]):
        total.merge(st)
    for st in core.pmap(docquote_shard, [[p] for p in DOCPOS]):
        total.merge(st)
    return core.finish(
        PROP,
        tier,
        "model_checking",
        total,
        t0,
        rule=(
            f"space1: BFS over all sequences of <= {L} physical lines from a {len(LINES)}-shape alphabet, "
            "prefix expanded only when (FortranReader locals+fields, reference lexer state, output lag) with ids "
            f"renamed is new; space2: all sequences of <= {T} tokens over {len(TOKENS)} tokens; space3: all ordered pairs (thorough: triples) of {len(LITS)} "
            "literals with syntax-like content in one declaration + PRINT + CALL, observed in the entity tree; "
            f"space4: {len(DOCTEXTS)} x 3 documentation texts holding quotes at {len(DOCPOS)} positions of a module (never altered, wherever attached). distinct_nontrivial = "
            "distinct expected outputs (ids renamed) of well-formed complete inputs"
        ),
        assumptions=[
            "character context continued without a leading & / unterminated literal / leading & on a new line are ill-formed and not judged",
            "empty statements and empty '!!' doc lines are ignored when comparing",
            "a '!!' line directly after a '!>' block is ambiguous and not judged",
            "long random sequences (sampling) are not part of this family and not done",
        ],
        bounds=dict(L=L, T=T, line_alphabet=len(LINES), token_alphabet=len(TOKENS)),
    )
