"""C06 - USE association imports exactly the accessible names.

Module graphs (chains, diamonds, fans, double USE) with <= 3 library modules plus
a consumer scope; every USE edge takes one of the USE forms; default public /
private with explicit public lists; 6 entity kinds in accessible and private
flavours; one module per file and EVERY permutation of the file order.
Oracle: an independent implementation of the standard's USE rules on the
abstract description (name -> (defining module, original name)), compared with
the scope tables (all_types / all_procs / all_vars / all_absinterfaces), the
pub_* tables of every module and the resolved reference slots.
"""
from __future__ import annotations

import itertools
import re
import time

from mc import core, fordrun
from mc.core import Stats

PROP = "C06"
KINDS = ["type", "subroutine", "function", "generic", "absint", "variable", "ctor", "operator", "enumerator"]
TABLE = {"type": "types", "subroutine": "procs", "function": "procs", "generic": "procs", "absint": "absinterfaces", "variable": "vars", "operator": "procs", "enumerator": "vars"}
PREFIX = {"type": "t", "subroutine": "s", "function": "f", "generic": "g", "absint": "a", "variable": "v", "ctor": "k", "operator": "o", "enumerator": "e"}


def ename(k, pq, tag):
    """name of the public (p) / private (q) entity of kind k in the module tagged `tag`"""
    return f"operator(.o{pq}{tag}.)" if k == "operator" else f"{PREFIX[k]}{pq}{tag}"
# "ctor" = a derived type and a generic interface (structure-constructor overload) sharing one name: one identifier
# that lives in two of FORD's tables (types and procs)
# when set, every using scope first names a module that is nowhere in the project (a third-party library): the USE
# statements after it must be treated exactly as without it
THIRD_PARTY_FIRST = [False]
FORMS = ["plain", "only", "rename", "only+rename", "prefix", "dcolon-only", "two-stmts", "only-empty", "only-upper", "only-twice", "only-blank"]


class Mod:
    def __init__(self, name, default, tag, uses=(), publist_kinds=("type", "subroutine"), hide_imported=False):
        self.name, self.default, self.tag = name, default, tag
        self.uses = list(uses)  # (Mod, form)
        self.own = []  # (name, kind, accessible)
        for k in KINDS if tag == "a" else ["type", "subroutine"]:
            self.own.append((ename(k, "p", tag), k, True))
            if tag == "a":
                self.own.append((ename(k, "q", tag), k, False))
        self.publist_kinds = publist_kinds
        self.hide_imported = hide_imported
        self._imports = None
        self._exports = None
        self._use_lines = None

    # ---- reference semantics -------------------------------------------------
    def imports(self):
        """local name -> (defmod, origname, kind) imported into this module's scope; also fixes the USE text."""
        if self._imports is None:
            imp, lines = {}, []
            for (m, form) in self.uses:
                got, text = use_semantics(m.exports(), m.name, form, self.tag)
                imp.update(got)
                lines += text
            self._imports, self._use_lines = imp, lines
        return self._imports

    def explicit_public_imported(self):
        if self.default != "private":
            return []
        return sorted(n for n, e in self.imports().items() if e[2] in self.publist_kinds)

    def explicit_private_imported(self):
        if self.default == "private" or not self.hide_imported:
            return []
        return sorted(n for n, e in self.imports().items() if e[2] in ("function", "variable"))

    def exports(self):
        if self._exports is None:
            ex = {}
            for (n, k, acc) in self.own:
                if acc:
                    ex[n] = (self.name, n, k)
            pub, priv = set(self.explicit_public_imported()), set(self.explicit_private_imported())
            for n, e in self.imports().items():
                if n in priv:
                    continue
                if self.default != "private" or n in pub:
                    ex[n] = e
            self._exports = ex
        return self._exports

    def visible(self):
        v = dict(self.imports())
        for (n, k, acc) in self.own:
            v[n] = (self.name, n, k)
        return v

    # ---- rendering -------------------------------------------------------------
    def source(self):
        self.imports()
        tp = ["use zz_thirdparty_lib", "use zz_other_lib, only: zz_thing"] if THIRD_PARTY_FIRST[0] and self._use_lines else []
        L = [f"module {self.name}"] + ["  " + l for l in tp + self._use_lines] + ["  implicit none"]
        if self.default == "private":
            L.append("  private")
            pubs = [n for n, k, acc in self.own if acc] + self.explicit_public_imported()
            if pubs:
                L.append("  public :: " + ", ".join(pubs))
        else:
            if self.default == "public":
                L.append("  public")
            privs = [n for n, k, acc in self.own if not acc] + self.explicit_private_imported()
            if privs:
                L.append("  private :: " + ", ".join(privs))
        cont = []
        for (n, k, acc) in self.own:
            if k == "type":
                L += [f"  type {n}", "    integer :: c", f"  end type {n}"]
            elif k == "variable":
                L.append(f"  integer :: {n}")
            elif k == "enumerator":
                L += ["  enum, bind(c)", f"    enumerator :: {n} = 1", "  end enum"]
            elif k == "absint":
                L += ["  abstract interface", f"    subroutine {n}()", f"    end subroutine {n}", "  end interface"]
            elif k == "ctor":
                L += [f"  type {n}", "    integer :: c", f"  end type {n}", f"  interface {n}", f"    module procedure {n}_i", "  end interface"]
                if self.default != "private":
                    L.append(f"  private :: {n}_i")
                cont += [f"  function {n}_i(x) result(r)", "    real, intent(in) :: x", f"    type({n}) :: r", "    r%c = int(x)", f"  end function {n}_i"]
            elif k == "generic":
                L += [f"  interface {n}", f"    module procedure {n}_i", "  end interface"]
                if self.default != "private":
                    L.append(f"  private :: {n}_i")
                cont += [f"  subroutine {n}_i(x)", "    integer :: x", f"  end subroutine {n}_i"]
            elif k == "operator":
                impl = "op_" + re.sub(r"\W", "", n)
                L += [f"  interface {n}", f"    module procedure {impl}", "  end interface"]
                if self.default != "private":
                    L.append(f"  private :: {impl}")
                cont += [f"  integer function {impl}(x, y)", "    integer, intent(in) :: x, y", f"    {impl} = x + y", f"  end function {impl}"]
            elif k == "subroutine":
                cont += [f"  subroutine {n}()", f"  end subroutine {n}"]
            elif k == "function":
                cont += [f"  integer function {n}()", f"    {n} = 1", f"  end function {n}"]
        if cont:
            L += ["contains"] + cont
        L.append(f"end module {self.name}")
        return "\n".join(L) + "\n"


def use_semantics(E, modname, form, tag):
    """E: exports of the used module.  Returns (imported dict, [USE statement text])."""
    names = sorted(E)
    first = {}
    for n in names:
        first.setdefault(E[n][2], n)
    half = [n for n in names if E[n][2] in ("type", "function", "variable", "ctor", "operator")]
    ren = [(f"l{tag}{E[first[k]][2][0]}", first[k]) for k in ("type", "subroutine") if k in first]
    imp = {}
    if form == "plain":
        return dict(E), [f"use {modname}"]
    if form == "prefix":
        return dict(E), [f"use, non_intrinsic :: {modname}"]
    if form in ("only", "dcolon-only", "only-upper", "only-blank"):
        for n in half:
            imp[n] = E[n]
        lst = ", ".join(half)
        if form == "only-blank":
            # a generic specification written with a blank: `operator (.x.)`
            return imp, [f"use {modname}, only: " + lst.replace("operator(", "operator (")]
        if form == "only-upper":
            return imp, [f"USE {modname.upper()}, ONLY : {lst.upper()}"]
        if not half:
            return imp, [f"use {modname}, only:"]
        return imp, [(f"use :: {modname}, only: {lst}" if form == "dcolon-only" else f"use {modname}, only: {lst}")]
    if form == "only-empty":
        return {}, [f"use {modname}, only:"]
    if form == "rename":
        imp = dict(E)
        for local, remote in ren:
            imp.pop(remote, None)
        for local, remote in ren:
            imp[local] = E[remote]
        if not ren:
            return dict(E), [f"use {modname}"]
        return imp, [f"use {modname}, " + ", ".join(f"{l} => {r}" for l, r in ren)]
    if form == "only+rename":
        items = []
        for local, remote in ren:
            imp[local] = E[remote]
            items.append(f"{local} => {remote}")
        for n in half:
            if n not in [r for _, r in ren]:
                imp[n] = E[n]
                items.append(n)
        return imp, [f"use {modname}, only: " + ", ".join(items)]
    if form == "two-stmts":
        a = half[: max(1, len(half) // 2)]
        b = [n for n in half if n not in a]
        lines = []
        for n in a:
            imp[n] = E[n]
        lines.append(f"use {modname}, only: " + ", ".join(a))
        items = []
        for local, remote in ren[:1]:
            imp[local] = E[remote]
            items.append(f"{local} => {remote}")
        for n in b:
            if n in [r for _, r in ren[:1]]:
                continue
            imp[n] = E[n]
            items.append(n)
        lines.append(f"use {modname}, only: " + ", ".join(items))
        return imp, lines
    if form == "only-twice":
        # the same entity made accessible under two names by one ONLY list
        items = []
        for local, remote in ren[:1]:
            imp[local] = E[remote]
            imp[remote] = E[remote]
            items += [f"{local} => {remote}", remote]
        for n in half:
            if n not in imp:
                imp[n] = E[n]
                items.append(n)
        return imp, [f"use {modname}, only: " + ", ".join(items)]
    raise ValueError(form)


CONSUMERS = ["module", "modproc", "internal", "ifacebody", "program", "external", "submodule", "submodproc"]


def consumer_source(kind, used, tagc="z"):
    """used: [(Mod, form)].  Returns (source, expected visible-from-USE dict, locator)."""
    imp, use_lines = {}, []
    for (m, form) in used:
        got, text = use_semantics(m.exports(), m.name, form, tagc)
        imp.update(got)
        use_lines += text
    decl, body = [], []
    for n, e in sorted(imp.items()):
        k = e[2]
        if k in ("type", "ctor"):
            decl.append(f"type({n}) :: cv_{n}")
        elif k == "absint":
            decl.append(f"procedure({n}), pointer :: pp_{n}")
        elif k == "subroutine":
            body.append(f"call {n}()")
        elif k == "function":
            decl.append(f"integer :: r_{n}")
            body.append(f"r_{n} = {n}()")
        elif k == "generic":
            body.append(f"call {n}(1)")
    if THIRD_PARTY_FIRST[0]:
        use_lines = ["use zz_thirdparty_lib", "use zz_other_lib, only: zz_thing"] + use_lines
    U = ["  " + l for l in use_lines]
    D = ["  " + l for l in decl]
    B = ["  " + l for l in body]
    if kind == "program":
        src = ["program cons"] + U + ["  implicit none"] + D + B + ["end program cons"]
    elif kind == "external":
        src = ["subroutine cons()"] + U + ["  implicit none"] + D + B + ["end subroutine cons"]
    elif kind == "module":
        # module-level USE; references are made from a module procedure (host association)
        src = ["module cmod"] + U + ["  implicit none", "contains", "  subroutine cons()"] + ["  " + l for l in D + B] + ["  end subroutine cons", "end module cmod"]
    elif kind == "modproc":
        src = ["module cmod", "  implicit none", "contains", "  subroutine cons()"] + ["  " + l for l in U] + ["  " + l for l in D + B] + ["  end subroutine cons", "end module cmod"]
    elif kind == "internal":
        src = (["module cmod", "  implicit none", "contains", "  subroutine outer()", "    call cons()", "  contains", "    subroutine cons()"]
               + ["    " + l for l in U] + ["    " + l for l in D + B] + ["    end subroutine cons", "  end subroutine outer", "end module cmod"])
    elif kind == "submodule":
        # USE in the specification part of a submodule (its ancestor module uses nothing); references from a procedure of the submodule
        src = (["module cmod", "  implicit none", "  interface", "    module subroutine smp()", "    end subroutine smp", "  end interface", "end module cmod",
                "submodule (cmod) asub"] + U + ["  implicit none", "contains", "  subroutine cons()"] + ["  " + l for l in D + B] + ["  end subroutine cons",
                "  module subroutine smp()", "  end subroutine smp", "end submodule asub"])
    elif kind == "submodproc":
        src = (["module cmod", "  implicit none", "  interface", "    module subroutine smp()", "    end subroutine smp", "  end interface", "end module cmod",
                "submodule (cmod) asub", "  implicit none", "contains", "  subroutine cons()"] + ["  " + l for l in U] + ["  " + l for l in D + B] + ["  end subroutine cons",
                "  module subroutine smp()", "  end subroutine smp", "end submodule asub"])
    elif kind == "ifacebody":
        # USE inside an interface body declared in a module procedure: only declarations are possible there
        D2 = [l for l in D if "type(" in l]
        src = (["module cmod", "  implicit none", "contains", "  subroutine outer()", "    interface", "      subroutine cons()"]
               + ["      " + l for l in U] + ["      " + l for l in D2] + ["      end subroutine cons", "    end interface", "  end subroutine outer", "end module cmod"])
    return "\n".join(src) + "\n", imp


def find_consumer(project, kind):
    if kind == "program":
        return project.programs[0]
    if kind == "external":
        return [p for p in project.procedures if p.name == "cons"][0]
    if kind in ("submodule", "submodproc"):
        sm = [m for m in project.submodules if m.name == "asub"][0]
        return [p for p in sm.subroutines if p.name == "cons"][0]
    cm = [m for m in project.modules if m.name == "cmod"][0]
    if kind in ("module", "modproc"):
        return cm.subroutines[0]
    outer = cm.subroutines[0]
    if kind == "internal":
        return outer.subroutines[0]
    # interface body
    for i in outer.interfaces:
        if getattr(i, "procedure", None) is not None and i.procedure.name == "cons":
            return i.procedure
    raise LookupError("interface body not found")


def ident(obj):
    """(defining module, original name) of a ford object."""
    from ford.sourceform import FortranBase

    if not isinstance(obj, FortranBase):
        return ("<str>", str(obj))
    par = obj.parent
    while par is not None and par.obj not in ("module", "submodule", "program", "sourcefile"):
        par = par.parent
    return (par.name.lower() if par is not None else None, obj.name.lower())


def table_of(scope, which, alphabet):
    t = getattr(scope, {"types": "all_types", "procs": "all_procs", "vars": "all_vars", "absinterfaces": "all_absinterfaces"}[which], {})
    return {n: ident(o) for n, o in t.items() if n in alphabet}


def expected_tables(visible):
    out = {"types": {}, "procs": {}, "vars": {}, "absinterfaces": {}}
    for n, (dm, on, k) in visible.items():
        if k == "ctor":
            out["types"][n] = (dm, on)
            out["procs"][n] = (dm, on)
        else:
            out[TABLE[k]][n] = (dm, on)
    return out


def run_case(st: Stats, case, perms):
    topo, dA, forms, dB, consumer, hide, *rest = case
    THIRD_PARTY_FIRST[0] = bool(rest and len(rest) > 1 and rest[1])
    A = Mod(rest[0] if rest else "ma", dA, "a")
    mods = [A]
    if topo == "single":
        used = [(A, forms[0])]
    elif topo == "chain2":
        B = Mod("mb", dB, "b", uses=[(A, forms[0])], hide_imported=hide)
        mods.append(B)
        used = [(B, forms[1])]
    elif topo == "chain3":
        B = Mod("mb", dB, "b", uses=[(A, forms[0])], hide_imported=hide)
        C = Mod("mc", "private" if dB == "none" else "none", "c", uses=[(B, forms[1])], publist_kinds=("type", "subroutine", "generic", "absint"))
        mods += [B, C]
        used = [(C, forms[2])]
    elif topo == "diamond":
        B = Mod("mb", dB, "b", uses=[(A, forms[0])], hide_imported=hide)
        C = Mod("mc", "none", "c", uses=[(A, forms[1])])
        mods += [B, C]
        used = [(B, "plain"), (C, forms[2])]
    elif topo == "fan":
        B = Mod("mb", dB, "b")
        B.own += [("vpb", "variable", True), ("fpb", "function", True)]
        mods.append(B)
        used = [(A, forms[0]), (B, forms[1])]
    elif topo == "double":
        used = [(A, forms[0]), (A, forms[1])]
    csrc, cimp = consumer_source(consumer, used)
    files = {f"src/{m.name}.f90": m.source() for m in mods}
    files["src/zcons.f90"] = csrc
    alphabet = set()
    for m in mods:
        alphabet |= set(m.visible()) | set(m.exports())
    alphabet |= set(cimp)
    names = sorted(files)
    stratum = f"{topo}/{consumer}"
    base = None
    for perm in perms(names):
        fordrun.FILE_ORDER = lambda fl, perm=perm: sorted(fl, key=lambda p: perm.index("src/" + p.name))
        r = fordrun.build_fast(files, dict(display=["public", "private", "protected"], proc_internals=True))
        fordrun.FILE_ORDER = None
        st.evaluations += 1
        st.transitions += 1
        inp = dict(case=list(case), order=list(perm), files=files)
        feats = dict(topo=topo, forms=",".join(forms), dA=dA, dB=dB, consumer=consumer, hide=hide, only_twice="only-twice" in forms, aname=A.name, third_party_first=THIRD_PARTY_FIRST[0],
                     order_is_sorted=list(perm) == names)
        if r.error is not None or "ERROR in file" in r.log or "Error parsing" in r.log:
            st.violation("ford-failed", stratum, feats, inp, (repr(r.error) + r.log[-300:]), "parses and correlates")
            st.stratum(stratum, 1)
            continue
        obs = {}
        bad = []
        pm = {m.name: m for m in r.project.modules}
        for m in mods:
            fm = pm.get(m.name)
            exp_pub = expected_tables(m.exports())
            exp_all = expected_tables(m.visible())
            for which in ("types", "procs", "vars", "absinterfaces"):
                pub = {n: ident(o) for n, o in getattr(fm, {"types": "pub_types", "procs": "pub_procs", "vars": "pub_vars", "absinterfaces": "pub_absints"}[which]).items() if n in alphabet}
                obs[f"{m.name}.pub_{which}"] = pub
                if pub != exp_pub[which]:
                    bad.append((f"exports-of-module", f"{m.name}.pub_{which}", pub, exp_pub[which]))
                al = table_of(fm, which, alphabet)
                obs[f"{m.name}.all_{which}"] = al
                if al != exp_all[which]:
                    bad.append(("names-visible-in-module", f"{m.name}.all_{which}", al, exp_all[which]))
        try:
            cons = find_consumer(r.project, consumer)
        except Exception as e:  # noqa
            st.violation("consumer-missing", stratum, feats, inp, repr(e), "consumer scope present")
            st.stratum(stratum, 1)
            continue
        expc = expected_tables(cimp)
        for which in ("types", "procs", "vars", "absinterfaces"):
            al = table_of(cons, which, alphabet)
            obs[f"cons.all_{which}"] = al
            if al != expc[which]:
                bad.append(("names-visible-in-consumer", f"cons.all_{which}", al, expc[which]))
        # resolved slots
        slot_obs = {}
        for v in list(getattr(cons, "variables", [])):
            if v.name.startswith("cv_") or v.name.startswith("pp_"):
                slot_obs[v.name] = ident(v.proto[0]) if v.proto else None
        for n, (dm, on, k) in cimp.items():
            if k in ("type", "ctor"):
                if slot_obs.get(f"cv_{n}") != (dm, on):
                    bad.append(("slot-variable-type", f"cv_{n}", slot_obs.get(f"cv_{n}"), (dm, on)))
            if k == "absint" and consumer != "ifacebody":
                if slot_obs.get(f"pp_{n}") != (dm, on):
                    bad.append(("slot-procedure-interface", f"pp_{n}", slot_obs.get(f"pp_{n}"), (dm, on)))
        if consumer != "ifacebody":
            calls = {ident(c) for c in getattr(cons, "calls", [])}
            for n, (dm, on, k) in cimp.items():
                if k in ("subroutine", "function", "generic") and (dm, on) not in calls:
                    bad.append(("slot-call", n, sorted(calls), (dm, on)))
        obs["slots"] = slot_obs
        st.states.add(core.digest(obs))
        if base is None:
            base = obs
        elif obs != base:
            bad.append(("file-order-dependence", "tables", "differs from first permutation", "identical for every file order"))
        st.stratum(stratum, 1 if bad else 0)
        for clause, where, got, want in bad[:6]:
            f = dict(feats)
            both = isinstance(got, dict) and isinstance(want, dict)
            f.update(where=where, extra=",".join(sorted(set(got) - set(want))) if both else None,
                     lost=",".join(sorted(set(want) - set(got))) if both else None,
                     lost_is_rename_alias=bool(both and set(want) - set(got) and all(n.startswith("l") and len(n) == 3 for n in set(want) - set(got))))
            st.violation(clause, stratum, f, inp, got, want)
    st.nontrivial.add(core.digest(case))
    if len(st.samples) < 2:
        st.sample(dict(case=list(case), files=files))


# ---- types extended through an imported (local) name --------------------------------------------
EXT_VIA = ["only-rename", "plain-rename", "reexport-rename", "reexport-plain", "only", "plain"]
EXT_CHILD = ["original-name", "other-name", "in-procedure"]
EXT_WHERE = ["module", "program", "submodule"]


def run_extends(st: Stats, case, perms):
    """`extends(<local name>)`: the base type is the exporting module's entity, whatever the child type is called (the original
    name of a renamed import is free for it) and wherever it is declared; the child inherits the component and the binding once."""
    _, via, child, where = case
    files = {"base.f90": "module base\n  implicit none\n  type :: object_t\n    integer :: c0\n  contains\n    procedure :: b0\n  end type object_t\ncontains\n"
                         "  subroutine b0(self)\n    class(object_t) :: self\n  end subroutine b0\nend module base\n"}
    src_mod, remote = "base", "object_t"
    if via.startswith("reexport"):
        if via == "reexport-rename":
            files["mid.f90"] = "module mid\n  use base, only: mid_t => object_t\n  implicit none\nend module mid\n"
            src_mod, remote = "mid", "mid_t"
        else:
            files["mid.f90"] = "module mid\n  use base\n  implicit none\nend module mid\n"
            src_mod = "mid"
    renamed = via in ("only-rename", "plain-rename", "reexport-rename")
    local = "parent_t" if renamed else remote
    use = {"only-rename": f"use {src_mod}, only: parent_t => {remote}", "plain-rename": f"use {src_mod}, parent_t => {remote}",
           "reexport-rename": f"use {src_mod}, only: parent_t => {remote}", "reexport-plain": f"use {src_mod}", "only": f"use {src_mod}, only: {remote}",
           "plain": f"use {src_mod}"}[via]
    cname = "object_t" if child == "original-name" else "child_t"
    tdef = [f"type, extends({local}) :: {cname}", "  integer :: c1", f"end type {cname}"]
    if child == "in-procedure":
        body = ["contains", "  subroutine holder()"] + ["    " + l for l in tdef] + ["  end subroutine holder"]
        spec = []
    else:
        body, spec = [], ["  " + l for l in tdef]
    if where == "module":
        files["cons.f90"] = "\n".join(["module cmod", "  " + use, "  implicit none"] + spec + body + ["end module cmod"]) + "\n"
    elif where == "program":
        files["cons.f90"] = "\n".join(["program cmod", "  " + use, "  implicit none"] + spec + body + ["end program cmod"]) + "\n"
    else:
        files["cons.f90"] = "\n".join(["module cpar", "  implicit none", "end module cpar", "submodule (cpar) cmod", "  " + use, "  implicit none"] + spec + body + ["end submodule cmod"]) + "\n"
    names = sorted(files)
    for order in perms(names):
        fordrun.FILE_ORDER = lambda fl, order=order: sorted(fl, key=lambda p: order.index(p.name))
        try:
            r = fordrun.build_fast({"src/" + n: files[n] for n in names}, dict(display=["public", "private", "protected"], proc_internals=True))
        finally:
            fordrun.FILE_ORDER = None
        st.evaluations += 1
        st.transitions += 1
        stratum = "extends-through-local-name"
        feats = dict(where=f"{where}/{child}", via=via, order=",".join(order))
        inp = dict(case=list(case), order=list(order), files=files)
        st.nontrivial.add(core.digest(case))
        if r.error is not None or not r.project or "ERROR in file" in r.log or "Error parsing" in r.log:
            st.violation("ford-failed", stratum, feats, inp, repr(r.error) + r.log[-300:], "parses")
            st.stratum(stratum, 1)
            continue
        scopes = list(r.project.modules) + list(r.project.submodules) + list(r.project.programs)
        cm = [m for m in scopes if m.name == "cmod"][0]
        holder = cm if child != "in-procedure" else cm.subroutines[0]
        t = [x for x in holder.types if x.name == cname]
        obs = dict(extends=ident(t[0].extends) if t else "<type missing>",
                   components=sorted(v.name for v in t[0].variables) if t else None,
                   bindings=sorted(b.name for b in t[0].boundprocs) if t else None)
        exp = dict(extends=("base", "object_t"), components=["c0", "c1"], bindings=["b0"])
        st.states.add(core.digest([case, obs]))
        if obs != exp:
            st.violation("reference-slot-wrong", stratum, feats, inp, obs, exp)
            st.stratum(stratum, 1)
        else:
            st.stratum(stratum, 0)


def gen_cases(tier):
    for via, child, where in itertools.product(EXT_VIA, EXT_CHILD, EXT_WHERE):
        if child == "original-name" and via in ("only", "plain", "reexport-plain"):
            continue  # the name is taken by the import itself
        yield ("extends", via, child, where)
    F = FORMS if tier == "thorough" else [f for f in FORMS if f not in ("only-empty", "only-twice", "prefix")]
    cons_all = CONSUMERS
    for dA in ("none", "private"):
        for f in FORMS:
            for c in cons_all:
                yield ("single", dA, (f,), "none", c, False)
        for f1, f2 in itertools.product(F, F):
            for dB in ("none", "private"):
                for c in cons_all if tier == "thorough" else ("modproc", "internal", "program"):
                    yield ("chain2", dA, (f1, f2), dB, c, False)
        F3 = ["plain", "only", "rename", "only+rename"] if tier == "thorough" else ["plain", "only+rename"]
        for f1, f2, f3 in itertools.product(F3, F3, F3):
            for dB in ("none", "private"):
                for c in ("internal", "ifacebody", "program") if tier == "thorough" else ("internal",):
                    yield ("chain3", dA, (f1, f2, f3), dB, c, False)
        for f1, f2, f3 in itertools.product(F3, F3, F3):
            for c in ("modproc", "program") if tier == "thorough" else ("modproc",):
                yield ("diamond", dA, (f1, f2, f3), "private", c, False)
        for f1, f2 in itertools.product(F3, F3):
            yield ("fan", dA, (f1, f2), "none", "program", False)
        for f1, f2 in itertools.product(["only", "rename", "only+rename", "two-stmts"], repeat=2):
            yield ("double", dA, (f1, f2), "none", "modproc", False)
        # a default-public module that declares some of what it imports PRIVATE: those are not re-exported
        for f1, f2 in itertools.product(["plain", "only", "rename", "only+rename"], repeat=2):
            for c in ("modproc", "program", "internal"):
                yield ("chain2", dA, (f1, f2), "none", c, True)
        # a USE without any list next to one with a list, either order: everything public, plus the local names
        for f2 in ("only", "only+rename", "only-twice", "only-upper"):
            for c in ("modproc", "program", "module"):
                yield ("double", dA, ("plain", f2), "none", c, False)
                yield ("double", dA, (f2, "plain"), "none", c, False)
        # a submodule (or a procedure of it) using a re-exporting module that its ancestor module does not use
        for f1, f2 in itertools.product(["plain", "only", "rename", "only+rename"], repeat=2):
            for dB in ("none", "private"):
                for c in ("submodule", "submodproc"):
                    yield ("chain2", dA, (f1, f2), dB, c, False)
        # an unknown (third-party) module named before the project modules in every using scope
        for f in F:
            for c in cons_all:
                yield ("single", dA, (f,), "none", c, False, "ma", True)
        for f1, f2 in itertools.product(["plain", "only", "rename", "only+rename"], repeat=2):
            for c in ("modproc", "program", "internal"):
                yield ("chain2", dA, (f1, f2), "none", c, False, "ma", True)
        # a project module whose name is also that of an intrinsic / well-known third-party module: the project's wins
        for aname in ("mpi", "iso_fortran_env"):
            for f in ("plain", "prefix", "only", "only+rename"):
                for c in ("modproc", "program"):
                    yield ("single", dA, (f,), "none", c, False, aname)
                for f2 in ("plain", "only", "rename") if tier == "thorough" else ("plain",):
                    yield ("chain2", dA, (f, f2), "none", "modproc", False, aname)


def work(args):
    chunk, full_perms = args
    st = Stats()

    def perms(names):
        if full_perms or len(names) <= 3:
            return list(itertools.permutations(names))
        # quick tier, 4 files: identity, reverse and every rotation
        out = [tuple(names), tuple(reversed(names))]
        for i in range(1, len(names)):
            out.append(tuple(names[i:] + names[:i]))
        return out

    for case in chunk:
        if case[0] == "extends":
            run_extends(st, case, perms)
        else:
            run_case(st, case, perms)
    return st


def replay(path):
    import json

    core.use_repo()
    rec = json.loads(open(path).read())
    case = rec["input"]["case"]
    case = tuple(tuple(x) if isinstance(x, list) else x for x in case)
    st = Stats()
    order = tuple(rec["input"]["order"])
    (run_extends if case[0] == "extends" else run_case)(st, case, lambda names: [order])
    for f, t in rec["input"]["files"].items():
        print("-----", f)
        print(t)
    for v in st.violations:
        print("REPRODUCED", v["clause"], v["features"]["where"], "got", v["observed"], "want", v["expected"])
    return 1 if st.violations else 0


def main(tier, replay_path=None):
    if replay_path:
        return replay(replay_path)
    t0 = time.time()
    core.use_repo()
    cases = list(gen_cases(tier))
    k = core.SEED % 11
    cases = cases[k:] + cases[:k]
    nchunks = core.WORKERS * 8
    chunks = [(cases[i::nchunks], tier == "thorough") for i in range(nchunks)]
    chunks = [c for c in chunks if c[0]]
    total = Stats()
    for st in core.pmap(work, chunks):
        total.merge(st)
    return core.finish(
        PROP, tier, "model_checking", total, t0,
        rule=("full product over topologies {single, chain of 2, chain of 3, diamond, fan, double USE} x default access of each module x "
              f"{len(FORMS)} USE forms per edge x consumer scope kind {CONSUMERS} x every permutation of the file order "
              "(quick tier: 4-file projects use identity/reverse/rotations); distinct_nontrivial = distinct module graphs; states = distinct observed table sets"),
        assumptions=[
            "identifiers are unique per module (name reuse is C07's subject)",
            "only names from the generated alphabet are compared in the scope tables",
            "an interface body can only hold declarations, so calls are not checked there",
        ],
        bounds=dict(cases=len(cases)),
    )
