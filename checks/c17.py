"""C17 - static pages mirror the page directory, in the documented order.

ALL directory trees with <= N entries (depth <= 3) over the entry kinds {page with
title, page without title, directory with index.md, directory without index.md,
non-Markdown file, hidden file, `~` backup} are built (names are assigned by
position, so every alphabetical interleaving of kinds occurs), x ordered_subpage
in {absent, complete reversed, partial, naming a missing entry} x copy_subdir
{absent, page-level, project-level, empty override}.  Every page links to the top
page by a relative link, through |page| and |url|, to an image through |media| and
to a source entity with [[...]].  Oracle: a reference mirror computed from the
abstract tree (set of page/**.html, copied files, order of every navigation list),
and the link resolver of mc/site.py from every depth; a title-less page is
reported and its siblings survive; a missing ordered entry aborts with a message
naming it.
"""
from __future__ import annotations

import itertools
import re
import time

from mc import core, fordrun
from mc.core import Stats
from mc.site import Site, classify_link

PROP = "C17"
KINDS = ["P", "U", "D", "N", "F", "H", "B", "V", "E"]  # V = two pages whose names differ only after a dot: x.2.md, x.3.md; E = an empty (zero-byte) .md file
SRC = {"src/m.f90": "module mod1\n!! module doc\ninteger :: v\n!! var\nend module mod1\n", "media/pic.png": "png"}


def trees(n, depth):
    """all sequences of entries with total size n; an entry is a kind or ('D', children) / ('N', children)."""
    if n == 0:
        yield ()
        return
    for first_size in range(1, n + 1):
        for first in entries(first_size, depth):
            for rest in trees(n - first_size, depth):
                yield (first,) + rest


def entries(size, depth):
    if size == 1:
        for k in KINDS:
            yield (k, ()) if k in ("D", "N") else k
        return
    if depth <= 1:
        return
    for k in ("D", "N"):
        for ch in trees(size - 1, depth - 1):
            if ch:
                yield (k, ch)


def page_text(title, depth, extra_meta=""):
    up = "../" * depth
    t = f"title: {title}\n" if title else ""
    return (f"{t}{extra_meta}\nText of {title or 'untitled'}. [top]({up}index.html) [ptop](|page|/index.html) [utop](|url|/index.html) "
            f"![pic](|media|/pic.png) [[mod1]] [[mod1:v]] [frag](|page|/index.html#text) [rfrag]({up}index.html#text)\n"
            # aliases on indented lines: a nested list item and the continuation paragraph of a list item
            f"\n- outer item\n    - nested [nptop](|page|/index.html) and [nutop](|url|/index.html)\n\n    continued ![npic](|media|/pic.png)\n")


def materialise(tree, ordered, copy_mode):
    """Return (files, expected) where expected = dict(pages=[paths], order={dir: [titles]}, copied=[paths], untitled=[paths], missing=name or None)."""
    files = {}
    exp = dict(pages=["index.html"], order={}, copied=[], untitled=[], missing=None, copied_dirs=[])

    def build(children, rel, depth, is_root):
        names = []
        for i, e in enumerate(children):
            kind = e if isinstance(e, str) else e[0]
            stem = f"{chr(97 + i)}_{kind.lower()}"
            names.append((kind, stem, e))
        # ordering metadata of this directory's index.md
        listed = []
        candidates = [(k, s) for (k, s, _) in names if k in ("P", "D", "U", "E")]
        # (dotted page names are left out of ordered_subpage lists: they follow alphabetically)
        if ordered in ("reversed", "reversed-cont"):
            listed = [(s + ".md" if k in ("P", "U", "E") else s) for (k, s) in reversed(candidates)]
        elif ordered == "repeated" and candidates:
            # an entry named twice in the list: it is one page, at the place of its first mention
            rev = [(s + ".md" if k in ("P", "U", "E") else s) for (k, s) in reversed(candidates)]
            listed = rev + [rev[0]]
        elif ordered == "partial" and candidates:
            k, s = candidates[-1]
            listed = [s + ".md" if k in ("P", "U", "E") else s]
        elif ordered == "missing" and is_root:
            listed = ["no_such_page.md"]
            exp["missing"] = "no_such_page.md"
        meta = "".join(f"ordered_subpage: {x}\n" for x in listed)
        if ordered == "reversed-cont" and listed:
            # the whole list on continuation lines below the bare keyword
            meta = "ordered_subpage:\n" + "".join(f"    {x}\n" for x in listed)
        ndirs = [s for (k, s, _) in names if k == "N"]
        copy_here = []
        if copy_mode == "page" and ndirs:
            copy_here = ndirs
            meta += "".join(f"copy_subdir: {d}\n" for d in ndirs)
        elif copy_mode in ("empty-override", "project+empty-override") and not is_root:
            # (with a project-wide list: the empty setting of this index.md replaces it for this directory)
            meta += "copy_subdir: \n"
        elif copy_mode == "project+rootpage" and is_root:
            # the top index.md has its own list (which replaces the project-wide `a_n` for this page only);
            # sub-directories without a setting of their own still get the project-wide one
            copy_here = [d for d in ndirs if d != "a_n"] or ["zz_nothing_here"]
            meta += "".join(f"copy_subdir: {d}\n" for d in copy_here)
        title = "T" + (rel.replace("/", "_") or "root")
        files[f"pages/{rel}index.md"] = page_text(title, depth, meta)
        # effective order
        by_name = {(s + ".md" if k in ("P", "U", "H", "B", "E") else s): (k, s, e) for (k, s, e) in names if k != "V"}
        for (k, s, e) in names:
            if k == "V":
                by_name[s + ".2.md"] = ("V2", s, e)
                by_name[s + ".3.md"] = ("V3", s, e)
        alpha = sorted(by_name)
        order = [x for x in dict.fromkeys(listed) if x in by_name] + [x for x in alpha if x not in listed]
        titles = []
        for name in order:
            k, s, e = by_name[name]
            if k == "P":
                files[f"pages/{rel}{s}.md"] = page_text(f"T{rel.replace('/', '_')}{s}", depth)
                exp["pages"].append(f"{rel}{s}.html")
                titles.append(f"T{rel.replace('/', '_')}{s}")
            elif k in ("V2", "V3"):
                n = k[1]
                files[f"pages/{rel}{s}.{n}.md"] = page_text(f"T{rel.replace('/', '_')}{s}v{n}", depth)
                exp["pages"].append(f"{rel}{s}.{n}.html")
                titles.append(f"T{rel.replace('/', '_')}{s}v{n}")
            elif k == "U":
                files[f"pages/{rel}{s}.md"] = page_text(None, depth)
                exp["untitled"].append(f"{rel}{s}.md")
            elif k == "E":
                files[f"pages/{rel}{s}.md"] = ""
                exp["untitled"].append(f"{rel}{s}.md")
            elif k == "D":
                sub_titles = build(e[1], f"{rel}{s}/", depth + 1, False)
                exp["pages"].append(f"{rel}{s}/index.html")
                titles.append("T" + f"{rel}{s}/".replace("/", "_"))
            elif k == "N":
                # directory without index.md: holds a file and a page that must be ignored (or copied verbatim)
                files[f"pages/{rel}{s}/data.txt"] = "data"
                # (copied verbatim means everything in it: also hidden files and names ending in `~`)
                files[f"pages/{rel}{s}/.htaccess"] = "Options -Indexes\n"
                files[f"pages/{rel}{s}/run~"] = "#!/bin/sh\n"
                files[f"pages/{rel}{s}/ignored.md"] = "title: Ignored\n\nignored\n"
                if s in copy_here or (copy_mode == "project" and s == "a_n") or (copy_mode == "project+rootpage" and s == "a_n" and not is_root) or (
                        copy_mode == "project+empty-override" and s == "a_n" and is_root):
                    exp["copied_dirs"].append(f"{rel}{s}")
            elif k == "F":
                files[f"pages/{rel}{s}.txt"] = "attachment"
                exp["copied"].append(f"{rel}{s}.txt")
            elif k == "H":
                files[f"pages/{rel}.{s}.md"] = "title: Hidden\n\nhidden\n"
            elif k == "B":
                files[f"pages/{rel}{s}.md~"] = "title: Backup\n\nbackup\n"
                # (a saved copy whose name merely contains `.md.`: an attachment like any other file, not a page)
                files[f"pages/{rel}{s}.md.bak"] = "title: Saved copy\n\nsaved\n"
                exp["copied"].append(f"{rel}{s}.md.bak")
        exp["order"][rel or "."] = titles
        return titles

    build(tree, "", 0, True)
    files.update(SRC)
    return files, exp


def nav_order(project_tree):
    out = {}

    def walk(node):
        rel = str(node.location).replace("\\", "/")
        rel = "." if rel == "." else rel + "/"
        out[rel if rel == "." else rel] = [sp.title for sp in node.subpages]
        for sp in node.subpages:
            if sp.filename.stem == "index":
                walk(sp)

    walk(project_tree)
    return out


BASE_URL = "https://example.org/docs"


def run_case(st: Stats, tree, ordered, copy_mode, url_mode=False):
    files, exp = materialise(tree, ordered, copy_mode)
    opts = dict(page_dir="pages", media_dir="media")
    latin = url_mode == "latin-1"
    bom = url_mode == "bom"
    url_mode = url_mode is True
    if bom:
        # every page file was saved with a UTF-8 byte-order mark in front
        files = {k: ("\ufeff" + v if (k.startswith("pages/") and k.endswith(".md") and v) else v) for k, v in files.items()}
    if latin:
        # the whole project is written in Latin-1 (`encoding: latin-1`): every page carries a word that is not valid UTF-8 in that encoding
        opts["encoding"] = "latin-1"
        files = {k: ((v + "\ncaf\xe9 cr\xe8me\n").encode("latin-1") if (k.startswith("pages/") and k.endswith(".md") and v and "/ignored.md" not in k) else v) for k, v in files.items()}
    if url_mode:
        # the documentation will be served from a known address: links into it are absolute URLs below that address
        opts["project_url"] = BASE_URL
        opts["search"] = True  # FORD's default
        opts["extra_filetypes"] = [dict(extension="sh", comment="#")]
        files = dict(files, **{"src/tool.sh": "#! a script\necho x\n"})
    if copy_mode in ("project", "project+rootpage", "project+empty-override"):
        opts["copy_subdir"] = ["a_n"]
    r = fordrun.build(files, opts, stage="write", proj_body="front\n")
    st.evaluations += 1
    st.transitions += 1
    stratum = f"ordered:{ordered}/copy:{copy_mode}" + ("/project_url" if url_mode else "") + ("/latin-1" if latin else "") + ("/bom" if bom else "")
    inp = dict(tree=repr(tree), ordered=ordered, copy_mode=copy_mode, url_mode=("latin-1" if latin else ("bom" if bom else url_mode)), page_files=sorted(f for f in files if f.startswith("pages/")))
    kinds = sorted({(e if isinstance(e, str) else e[0]) for e in flatten(tree)})
    feats = dict(ordered=ordered, copy_mode=copy_mode, kinds="".join(kinds), depth=depth_of(tree), url_mode=url_mode)
    st.nontrivial.add(core.digest([repr(tree), ordered, copy_mode, url_mode]))
    try:
        if exp["missing"]:
            ok = r.error is not None and exp["missing"] in (str(r.error) + r.log)
            if not ok:
                st.violation("missing-ordered-entry-not-named", stratum, feats, inp, (repr(r.error) + r.log[-200:])[:300], f"abort with a message naming {exp['missing']}")
            st.stratum(stratum, 0 if ok else 1)
            return
        if r.error is not None or r.stage_reached != "write":
            st.violation("ford-failed", stratum, feats, inp, (repr(r.error) + " " + r.log[-300:]).strip(), "site is written")
            st.stratum(stratum, 1)
            return
        bad = 0
        site = Site(r.out)
        got_pages = sorted(p[len("page/"):] for p in site.files if p.startswith("page/") and p.endswith(".html"))
        want_pages = sorted(exp["pages"])
        # pages inside verbatim-copied directories are not pages of the tree
        got_pages = [p for p in got_pages if not any(p.startswith(d + "/") for d in exp["copied_dirs"])]
        if got_pages != want_pages:
            bad += 1
            st.violation("page-set-differs", stratum, dict(feats, extra=",".join(sorted(set(got_pages) - set(want_pages)))[:80], missing=",".join(sorted(set(want_pages) - set(got_pages)))[:80]),
                         inp, got_pages, want_pages)
        if latin:
            for pth in want_pages:
                pg = site.pages.get("page/" + pth)
                if pg is not None and "caf\xe9 cr\xe8me" not in pg.text:
                    bad += 1
                    st.violation("page-text-garbled", stratum, feats, inp, dict(page=pth, text=pg.text[-120:]), "the words written in the project's encoding")
                    break
        for f in exp["copied"]:
            if f"page/{f}" not in site.files:
                bad += 1
                st.violation("file-not-copied", stratum, feats, inp, sorted(x for x in site.files if x.startswith("page/")), f"page/{f}")
                break
        for d in exp["copied_dirs"]:
            if f"page/{d}/data.txt" not in site.files or not (r.out / "page" / d / ".htaccess").exists() or not (r.out / "page" / d / "run~").exists():
                bad += 1
                st.violation("copy_subdir-not-copied", stratum, feats, inp, sorted(x for x in site.files if x.startswith("page/")), f"page/{d}/data.txt")
                break
        for x in sorted(site.files):
            m_ = re.match(r"page/(.*)/data\.txt$", x)
            if m_ and m_.group(1) not in exp["copied_dirs"]:
                bad += 1
                st.violation("directory-copied-without-being-listed", stratum, feats, inp, x, f"only {exp['copied_dirs']} are copied")
                break
        leaked = [x for x in site.files if x.startswith("page/") and (x.endswith("~") or "/." in x or x.endswith(".md"))
                  and not any(x.startswith(f"page/{d}/") for d in exp["copied_dirs"])]
        if leaked:
            bad += 1
            st.violation("hidden-or-backup-file-published", stratum, feats, inp, leaked, "hidden / backup / markdown sources are not copied")
        # order of every navigation list
        if r.page_tree is not None:
            got_order = nav_order(r.page_tree)
            for d, titles in exp["order"].items():
                key = d if d == "." else d
                if got_order.get(key, []) != titles:
                    bad += 1
                    st.violation("navigation-order-differs", stratum, dict(feats, dir_depth=d.count("/")), inp, dict(dir=d, got=got_order.get(key)), titles)
                    break
        # untitled pages are reported
        for u in exp["untitled"]:
            if u.split("/")[-1] not in r.log:
                bad += 1
                st.violation("untitled-page-not-reported", stratum, feats, inp, r.log[-300:], f"a warning naming {u}")
                break
        # links from every depth
        seen = set()
        for (page, tag, attr, url, prob) in site.link_problems():
            if not page.startswith("page/"):
                continue
            cls = classify_link(page, url, prob) + f"@depth{page.count('/') - 1}"
            if cls in seen:
                continue
            seen.add(cls)
            bad += 1
            st.violation("broken-link-on-static-page", stratum, dict(feats, link_class=cls), inp, dict(page=page, url=url, problem=prob), "resolves")
        if url_mode:
            import urllib.parse as _up

            seen_u = set()
            for rel, pg in site.pages.items():
                for (_, a, u) in pg.links:
                    if a not in ("href", "src") or not u.startswith("http"):
                        continue
                    if u.startswith(BASE_URL + "/") or u == BASE_URL:
                        target = _up.unquote(u[len(BASE_URL) + 1:].split("#")[0]) or "index.html"
                        ok = target in site.files
                        prob = f"no such file in the output: {target}"
                    elif "example.org" in u or _up.urlsplit(u).netloc == "":
                        ok, prob = False, "malformed URL into the documentation"
                    else:
                        continue
                    cls = (rel.split("/")[0], prob.split(":")[0])
                    if not ok and cls not in seen_u:
                        seen_u.add(cls)
                        bad += 1
                        st.violation("broken-link-on-static-page", stratum, dict(feats, link_class="url-mode:" + cls[1]), inp, dict(page=rel, url=u, problem=prob), "an address below project_url that exists")
            for e in site.search:
                u = str(e.get("url", "")) if isinstance(e, dict) else ""
                if not (u.startswith(BASE_URL + "/") and u[len(BASE_URL) + 1:].split("#")[0] in site.files):
                    bad += 1
                    st.violation("broken-link-on-static-page", stratum, dict(feats, link_class="url-mode:search-index"), inp, dict(page="search index", url=u), "an address below project_url that exists")
                    break
        # fragments of alias links and relative links survive
        for rel, pg in site.pages.items():
            if rel.startswith("page/") and not any(rel.startswith(f"page/{d}/") for d in exp["copied_dirs"]):
                nfrag = sum(1 for (_, a, u) in pg.links if a == "href" and u.endswith("index.html#text"))
                if nfrag < 2:
                    bad += 1
                    st.violation("link-fragment-lost", stratum, dict(feats, page_depth=rel.count("/") - 1), inp,
                                 [u for (_, a, u) in pg.links if "index.html" in u][:6], "both the |page| link and the relative link keep '#text'")
                    break
        # aliases and [[...]] became links
        for rel, pg in site.pages.items():
            if rel.startswith("page/") and not any(rel.startswith(f"page/{d}/") for d in exp["copied_dirs"]):
                if "|page|" in pg.raw or "|media|" in pg.raw or "|url|" in pg.raw or "[[mod1" in pg.text:
                    bad += 1
                    st.violation("alias-or-reference-not-substituted", stratum, dict(feats, page_depth=rel.count("/") - 1), inp, rel, "aliases and [[...]] substituted")
                    break
        st.states.add(core.digest([got_pages, sorted(site.files & {f'page/{f}' for f in exp['copied']})]))
        st.stratum(stratum, bad)
        if len(st.samples) < 2 and len(tree) >= 2:
            st.sample(dict(tree=repr(tree), ordered=ordered, copy=copy_mode, pages=got_pages))
    finally:
        r.cleanup()


def flatten(tree):
    for e in tree:
        yield e
        if not isinstance(e, str):
            yield from flatten(e[1])


def depth_of(tree):
    d = 0
    for e in tree:
        if not isinstance(e, str):
            d = max(d, 1 + depth_of(e[1]))
    return d


def gen_cases(tier):
    nmax = 3 if tier == "quick" else 4
    for n in range(0, nmax + 1):
        for t in trees(n, 3):
            yield (t, "absent", "absent")
    nord = 3 if tier == "quick" else 4
    for n in range(1, nord + 1):
        for t in trees(n, 3):
            ks = [e if isinstance(e, str) else e[0] for e in flatten(t)]
            if sum(k in ("P", "D", "U") for k in ks) >= 2 or n <= 2:
                for o in ("reversed", "partial", "reversed-cont", "repeated"):
                    yield (t, o, "absent")
            if "N" in ks:
                for c in ("page", "project", "empty-override", "project+rootpage", "project+empty-override"):
                    yield (t, "absent", c)
    for n in (0, 1, 2):
        for t in trees(n, 2):
            yield (t, "missing", "absent")
    # project_url given as a real URL
    for n in (0, 1, 2) if tier == "quick" else (0, 1, 2, 3):
        for t in trees(n, 3):
            yield (t, "absent", "absent", True)
    # the project written in another encoding than UTF-8
    for n in (0, 1, 2) if tier == "quick" else (0, 1, 2, 3):
        for t in trees(n, 3):
            yield (t, "absent", "absent", "latin-1")
            if n <= 2:
                yield (t, "absent", "absent", "bom")
    if tier == "thorough":
        # 5 entries: page/dir kinds only (the kinds that shape the mirror)
        global KINDS
        old = KINDS
        KINDS = ["P", "D", "F", "U"]
        try:
            for t in trees(5, 3):
                yield (t, "absent", "absent")
        finally:
            KINDS = old


def work(chunk):
    st = Stats()
    for (t, o, c, *more) in chunk:
        run_case(st, t, o, c, more[0] if more else False)
    return st


def replay(path):
    import json

    core.use_repo()
    rec = json.loads(open(path).read())
    i = rec["input"]
    st = Stats()
    run_case(st, eval(i["tree"]), i["ordered"], i["copy_mode"], i.get("url_mode", False))  # noqa: S307 - our own repr of a tuple tree
    print(i["page_files"])
    for v in st.violations:
        print("REPRODUCED", v["clause"], v["observed"], "want", v["expected"])
    return 1 if st.violations else 0


def main(tier, replay_path=None):
    if replay_path:
        return replay(replay_path)
    t0 = time.time()
    core.use_repo()
    cases = list(dict.fromkeys(gen_cases(tier)))
    k = core.SEED % 37
    cases = cases[k:] + cases[:k]
    n = core.WORKERS * 8
    total = Stats()
    for st in core.pmap(work, [c for c in (cases[i::n] for i in range(n)) if c]):
        total.merge(st)
    return core.finish(
        PROP, tier, "model_checking", total, t0,
        rule=(f"all directory trees with <= {3 if tier == 'quick' else 4} entries over 7 entry kinds, depth <= 3 (names by position, so every alphabetical interleaving occurs)"
              + ("; all trees with 5 entries over {page, dir, file, untitled}" if tier == "thorough" else "") +
              "; ordered_subpage {reversed, partial} on trees with >= 2 orderable entries; copy_subdir {page, project, empty override} on trees with a plain directory; "
              "missing ordered entry on small trees. distinct_nontrivial = distinct (tree, ordering, copy mode)"),
        assumptions=[
            "a missing ordered_subpage entry aborts the run by design; the message must name the entry",
            "pages inside a verbatim-copied directory are not part of the page tree",
        ],
        bounds=dict(cases=len(cases)),
    )
