"""C05 - the site documents exactly the entities selected by the display options.

A library module with every entity kind in public / protected / private flavours
and documented / undocumented twins (every entity and component carries a unique
tracer word), a program with an internal procedure and an external procedure, are
built for: project `display` in all 8 subsets of {public, protected, private} and
`none` x proc_internals x hide_undoc (full), crossed with metadata overrides of
`display` / `proc_internals` at file, module, type and procedure level with <= d
overrides at once (d=1 quick, 2 thorough).  A reference selection function on the
abstract description (inheritance of `display`, `none` ignored on files) decides
which entities are selected; oracle on the generated site: every selected entity's
tracer is on its parent's page and it has its own page when its kind has one; no
tracer of an unselected entity appears in any HTML page or search-index entry; no
href targets a page of an unselected entity.
"""
from __future__ import annotations

import itertools
import time

from mc import core, fordrun
from mc.core import Stats
from mc.explore import explore
from mc.site import Site

PROP = "C05"

# (name, kind, permission, documented, parent) ; parent in {lib, tpub, tpriv, spub, prog, ext}
ENTS = [
    ("vpub", "var", "public", True, "lib"), ("vprot", "var", "protected", True, "lib"), ("vpriv", "var", "private", True, "lib"),
    ("uvpub", "var", "public", False, "lib"), ("uvpriv", "var", "private", False, "lib"),
    ("tpub", "type", "public", True, "lib"), ("tpriv", "type", "private", True, "lib"), ("utpub", "type", "public", False, "lib"),
    ("tchild", "type", "public", True, "lib"),
    ("tchild2", "type", "public", True, "lib2"),  # in another module: extends tpub and inherits its components and bindings  # has a component of the private type: a relation to an unselected entity
    ("cpub", "comp", "public", True, "tpub"), ("cpriv", "comp", "private", True, "tpub"), ("ucpub", "comp", "public", False, "tpub"),
    ("bpub", "bind", "public", True, "tpub"), ("bpriv", "bind", "private", True, "tpub"),
    ("cq", "comp", "public", True, "tpriv"),
    ("spub", "proc", "public", True, "lib"), ("spriv", "proc", "private", True, "lib"), ("uspub", "proc", "public", False, "lib"),
    ("fpub", "proc", "public", True, "lib"),
    ("apub", "absint", "public", True, "lib"), ("apriv", "absint", "private", True, "lib"),
    ("gpub", "generic", "public", True, "lib"), ("gpriv", "generic", "private", True, "lib"),
    ("inner", "proc", "public", True, "spub"), ("lvar", "var", "public", True, "spub"), ("ltype", "type", "public", True, "spub"),
    ("pinner", "proc", "public", True, "prog"), ("pvar", "var", "public", True, "prog"),
    ("evar", "var", "public", True, "ext"),
    ("mplocal", "var", "private", True, "smp"), ("mpinner", "proc", "private", True, "smp"),
    # what a procedure declares besides variables and types: a namelist group in the private procedure, an enumeration in spub
    # (a common block declared in spub is global storage, documented with every unit that names it whatever proc_internals says: see `lcommon` below)
    # a module in a second source file: file-level metadata of the first file has no say there
    ("ovpub", "var", "public", True, "oth"), ("ovpriv", "var", "private", True, "oth"), ("ospriv", "proc", "private", True, "oth"), ("otpriv", "type", "private", True, "oth"),
    # a BLOCK DATA unit (second file): its variables and types are filtered like a program's contents; undocumented ones go with hide_undoc
    ("bdvar", "var", "public", True, "bd"), ("ubdvar", "var", "public", False, "bd"), ("bdtype", "type", "public", True, "bd"),
    # ... and what an internal procedure of the private procedure declares
    ("sprivin", "proc", "public", True, "spriv-inner"), ("nlinner", "namelist", "public", True, "spriv-inner"), ("nlinv", "var", "public", True, "spriv-inner"),
    ("nlpriv", "namelist", "public", True, "spriv"), ("lenum", "enumerator", "public", True, "spub"), ("lcommon", "common", "public", True, "spub-common"),
]
# FORD describes an internal procedure with its arguments on the page of its host and has no place for what the internal procedure declares itself:
# nothing is demanded for these when they are selected, but they must not appear when they are not
NOT_REQUIRED = {"nlinner", "nlinv"}
HAS_PAGE = {"type": "type", "proc": "proc", "absint": "interface", "generic": "interface"}


def tracer(name):
    return f"TRC{name}x"


def source(meta):
    """meta: {level: [metadata lines]} for level in file, lib, tpub, spub."""
    def doc(name, indent="  "):
        e = next(x for x in ENTS if x[0] == name)
        return [f"{indent}!! {tracer(name)}"] if e[3] else []

    def m(level, indent="  "):
        return [f"{indent}!! {l}" for l in meta.get(level, [])]

    L = []
    L += m("file", "")
    L += ["module lib"] + m("lib") + ["  !! TRClibx module doc", "  implicit none",
          "  private :: vpriv, uvpriv, tpriv, spriv, apriv, gpriv, gsp_pub_impl, gsp_priv_impl, bimpl1, bimpl2",
          "  integer :: vpub"] + doc("vpub") + ["  integer, protected :: vprot"] + doc("vprot") + ["  integer :: vpriv"] + doc("vpriv") + [
          "  integer :: uvpub", "  integer :: uvpriv",
          "  type :: tpub"] + m("tpub", "    ") + doc("tpub", "    ") + ["    integer :: cpub"] + doc("cpub", "    ") + ["    integer, private :: cpriv"] + doc("cpriv", "    ") + [
          "    integer :: ucpub", "  contains", "    procedure :: bpub => bimpl1"] + doc("bpub", "    ") + ["    procedure, private :: bpriv => bimpl2"] + doc("bpriv", "    ") + ["  end type tpub",
          "  type :: tpriv"] + doc("tpriv", "    ") + ["    integer :: cq"] + doc("cq", "    ") + ["  end type tpriv",
          "  type :: utpub", "    integer :: uc2", "  end type utpub",
          "  type :: tchild"] + doc("tchild", "    ") + ["    type(tpriv), pointer :: back => null()", "    type(tpub), pointer :: fwd => null()", "  end type tchild",
          "  interface", "    module subroutine smp()", "      !! TRCsmpifacex", "    end subroutine smp", "  end interface",
          "  abstract interface", "    subroutine apub()"] + doc("apub", "      ") + ["    end subroutine apub", "    subroutine apriv()"] + doc("apriv", "      ") + ["    end subroutine apriv", "  end interface",
          "  interface gpub"] + doc("gpub", "    ") + ["    module procedure gsp_pub_impl", "  end interface gpub",
          "  interface gpriv"] + doc("gpriv", "    ") + ["    module procedure gsp_priv_impl", "  end interface gpriv",
          "contains",
          "  subroutine spub(a)"] + m("spub", "    ") + doc("spub", "    ") + ["    integer :: a", "    !! TRCargax", "    integer :: lvar"] + doc("lvar", "    ") + [
          "    enum, bind(c)", "      !! the enumeration itself is documented too", "      enumerator :: lenum = 1"] + doc("lenum", "      ") + ["    end enum", "    integer :: lcv", "    common /lcommon/ lcv"] + doc("lcommon", "    ") + [
          "    type ltype"] + doc("ltype", "      ") + ["      integer :: lc", "    end type ltype", "    call inner()", "    call spriv()", "    a = fpub()", "  contains", "    subroutine inner()"] + doc("inner", "      ") + ["    end subroutine inner", "  end subroutine spub",
          "  subroutine spriv()"] + doc("spriv", "    ") + ["    integer :: nlv", "    namelist /nlpriv/ nlv"] + doc("nlpriv", "    ") + ["    call sprivin()", "  contains", "    subroutine sprivin()"] + doc("sprivin", "      ") + [
          "      integer :: nlinv"] + doc("nlinv", "      ") + ["      namelist /nlinner/ nlinv"] + doc("nlinner", "      ") + ["    end subroutine sprivin", "  end subroutine spriv",
          "  subroutine uspub()", "  end subroutine uspub",
          "  integer function fpub()"] + doc("fpub", "    ") + ["    fpub = 1", "  end function fpub",
          "  subroutine gsp_pub_impl(x)", "    !! TRCgspecpubx", "    !!", "    !! second paragraph", "    integer :: x", "  end subroutine gsp_pub_impl",
          "  subroutine gsp_priv_impl(x)", "    !! TRCgspecprivx", "    !!", "    !! second paragraph", "    real :: x", "  end subroutine gsp_priv_impl",
          "  subroutine bimpl1(self)", "    !! TRCbimpl1x", "    !!", "    !! second paragraph", "    class(tpub) :: self", "  end subroutine bimpl1",
          "  subroutine bimpl2(self)", "    !! TRCbimpl2x", "    !!", "    !! second paragraph", "    class(tpub) :: self", "  end subroutine bimpl2",
          "end module lib",
          "module lib2", "  !! TRClib2x", "  use lib", "  implicit none", "  type, extends(tpub) :: tchild2"] + doc("tchild2", "    ") + ["    integer :: own2", "  end type tchild2", "end module lib2",
          "submodule (lib) sublib", "  !! TRCsublibx", "contains", "  module procedure smp", "    !! TRCsmpimplx", "    integer :: mplocal"] + doc("mplocal", "    ") + [
          "    call mpinner()", "  contains", "    subroutine mpinner()"] + doc("mpinner", "      ") + ["    end subroutine mpinner", "  end procedure smp", "end submodule sublib",
          "program prog", "  !! TRCprogx program doc", "  use lib", "  implicit none", "  integer :: pvar"] + doc("pvar") + ["  call spub(1)", "contains", "  subroutine pinner()"] + doc("pinner", "    ") + ["  end subroutine pinner", "end program prog",
          "subroutine ext()", "  !! TRCextx external doc", "  integer :: evar"] + doc("evar") + ["end subroutine ext"]
    return "\n".join(L) + "\n"


def other_source():
    def doc(name, indent="  "):
        return [f"{indent}!! {tracer(name)}"]
    L = (["module oth", "  !! TRCothx", "  implicit none", "  private :: ovpriv, ospriv, otpriv", "  integer :: ovpub"] + doc("ovpub") + ["  integer :: ovpriv"] + doc("ovpriv")
         + ["  type :: otpriv"] + doc("otpriv", "    ") + ["    integer :: oc", "  end type otpriv", "contains", "  subroutine ospriv()"] + doc("ospriv", "    ") + ["  end subroutine ospriv", "end module oth"])
    L += ["block data bdunit", "  !! TRCbdunitx", "  integer, parameter :: bdvar = 1"] + doc("bdvar") + ["  integer, parameter :: ubdvar = 2", "  integer :: bdc", "  type bdtype"] + doc("bdtype", "    ") + ["    sequence", "    integer :: bq", "  end type bdtype",
          "  common /bdblk/ bdc", "end block data bdunit"]
    return "\n".join(L) + "\n"


def effective(project_display, meta_display, is_file=False):
    """FORD's documented rule: a display override replaces the inherited list; `none` = show nothing (ignored on files)."""
    vals = [v.lower() for v in meta_display]
    if is_file:
        vals = [v for v in vals if v != "none"]
    if not vals:
        return project_display
    if "none" in vals:
        return []
    if not ({"public", "private", "protected"} & set(vals)):
        return project_display
    return vals


def expected_selection(display, proc_internals, hide_undoc, overrides):
    """{entity name: selected?}"""
    d_file = effective(display, overrides.get("file-display", []), True)
    d_lib = effective(d_file, overrides.get("lib-display", []))
    d_tpub = effective(d_lib, overrides.get("tpub-display", []))
    d_spub = effective(d_lib, overrides.get("spub-display", []))
    pi_spub = overrides.get("spub-proc_internals", proc_internals)
    sel = {}

    def shown(e, scope_display):
        name, kind, perm, documented, parent = e
        if hide_undoc and not documented:
            return False
        return perm in scope_display

    for e in ENTS:
        name, kind, perm, documented, parent = e
        if parent == "lib":
            sel[name] = shown(e, d_lib)
        elif parent == "tpub":
            sel[name] = sel.get("tpub", False) and shown(e, d_tpub)
        elif parent == "tpriv":
            sel[name] = sel.get("tpriv", False) and shown(e, d_lib)
        elif parent == "spub":
            sel[name] = sel.get("spub", False) and bool(pi_spub) and shown(e, d_spub)
        elif parent == "spriv":
            sel[name] = sel.get("spriv", False)  # nothing of an unselected procedure is documented
        elif parent == "oth":
            sel[name] = shown(e, display)
        elif parent == "bd":
            sel[name] = shown(e, display)
        elif parent == "spriv-inner":
            sel[name] = sel.get("spriv", False) and bool(proc_internals) and shown(e, d_lib)
        elif parent == "spub-common":
            sel[name] = sel.get("spub", False) and not (hide_undoc and not documented)
        elif parent == "lib2":
            sel[name] = shown(e, d_file)
        elif parent == "prog":
            sel[name] = shown(e, d_file)  # a program's contents are filtered with its display; internal procedures of a program are its own contents
        elif parent == "ext":
            sel[name] = bool(proc_internals) and shown(e, d_file)
        elif parent == "smp":
            # internals of a separate module procedure implementation in a (private) submodule
            sel[name] = "private" in d_file and bool(proc_internals) and shown(e, d_file)
    return sel


OVERRIDE_SITES = [
    ("file-display", [None, ["private"], ["public"], ["none"], ["public", "private", "protected"]]),
    ("lib-display", [None, ["private"], ["public"], ["none"], ["public", "private"], ["private", "@KEY=Display"], ["none", "@KEY=DISPLAY"], ["protected"]]),
    ("tpub-display", [None, ["private"], ["public"], ["none"], ["private", "@KEY=Display"], ["protected"]]),
    ("spub-display", [None, ["private"], ["public"], ["none"], ["none", "@KEY=DISPLAY"]]),
    ("spub-proc_internals", [None, True, False, "@KEY=Proc_Internals"]),
]
# "@KEY=<spelling>": the metadata keyword written in another letter case (keywords are documented as case-insensitive)


def run_config(st: Stats, display, proc_internals, hide_undoc, overrides, search, graph=False):
    meta = {}
    raw_overrides = overrides
    overrides = {}
    for k, v in raw_overrides.items():
        level, key = k.split("-")
        spelled = key
        if isinstance(v, list):
            marks = [x for x in v if str(x).startswith("@KEY=")]
            v = [x for x in v if not str(x).startswith("@KEY=")]
            if marks:
                spelled = marks[0][5:]
        elif isinstance(v, str) and v.startswith("@KEY="):
            spelled, v = v[5:], True
        overrides[k] = v
        if key == "display":
            meta.setdefault(level, []).append(f"{spelled}: " + v[0])
            for extra in v[1:]:
                meta[level].append("         " + extra)
        else:
            meta.setdefault(level, []).append(f"{spelled}: {'true' if v else 'false'}")
    src = source(meta)
    opts = dict(display=display if display else ["none"], proc_internals=proc_internals, hide_undoc=hide_undoc, incl_src=False, search=search, graph=False)
    if graph:
        # graphs drawn as HTML tables (first hop exceeds the node limit): their rows are links too
        opts.update(graph=True, graph_maxnodes=1)
    r = fordrun.build({"src/lib.f90": src, "src/other.f90": other_source()}, opts, stage="write", proj_body="front page\n")
    st.evaluations += 1
    stratum = "overrides:" + ("+".join(sorted(overrides)) or "none")
    inp = dict(display=display, proc_internals=proc_internals, hide_undoc=hide_undoc, overrides={k: v for k, v in raw_overrides.items()}, search=search, graph=graph)
    feats = dict(display="+".join(display) or "none", proc_internals=proc_internals, hide_undoc=hide_undoc, overrides="+".join(sorted(overrides)) or "none",
                 file_display_override="file-display" in overrides, graph=graph,
                 key_case=any("@KEY=" in str(v) for v in raw_overrides.values()))
    st.nontrivial.add(core.digest(inp))
    try:
        if r.error is not None or r.stage_reached != "write":
            st.violation("ford-failed", stratum, feats, inp, (repr(r.error) + " " + r.log[-300:]).strip(), "site is written")
            st.stratum(stratum, 1)
            return
        sel = expected_selection([d.lower() for d in display], proc_internals, hide_undoc, overrides)
        site = Site(r.out)
        alltext = {rel: pg.text for rel, pg in site.pages.items()}
        search_text = " ".join(str(e.get("text", "")) + " " + str(e.get("title", "")) for e in site.search if isinstance(e, dict))
        bad = 0
        ents = {e[0]: e for e in ENTS}
        for name, selected in sel.items():
            e = ents[name]
            _, kind, perm, documented, parent = e
            tr = tracer(name) if documented else None
            where = [rel for rel, t in alltext.items() if tr and tr in t]
            if parent == "tpub":
                # components and bindings of tpub are also shown, as inherited ones, with the type that extends it
                where = [rel for rel in where if rel not in ("type/tchild2.html", "module/lib2.html")]
            in_search = bool(tr and tr in search_text)
            if parent == "tpub" and in_search:
                in_search = any(tr in (str(e.get("text", "")) + str(e.get("title", ""))) for e in site.search
                                if isinstance(e, dict) and str(e.get("url", "")) not in ("type/tchild2.html", "module/lib2.html"))
            st.transitions += 1
            f = dict(feats, entity=name, kind=kind, permission=perm, documented=documented, parent=parent)
            if selected and name in NOT_REQUIRED:
                pass
            elif selected:
                if tr and not where:
                    bad += 1
                    st.violation("selected-entity-not-documented", stratum, f, inp, "tracer on no page", f"{tr} on the parent's page")
                if kind in HAS_PAGE and parent in ("lib", "oth"):
                    page = f"{HAS_PAGE[kind]}/{name}.html"
                    if page not in site.pages:
                        bad += 1
                        st.violation("selected-entity-has-no-page", stratum, f, inp, sorted(p for p in site.pages if p.startswith(HAS_PAGE[kind])), page)
            else:
                if where or in_search:
                    bad += 1
                    st.violation("unselected-entity-leaks", stratum, dict(f, leak="search" if in_search and not where else (where[0].split("/")[0] if where else "")), inp,
                                 dict(pages=where[:4], in_search_index=in_search), "no documentation text of an unselected entity anywhere")
                if kind in HAS_PAGE and parent in ("lib", "oth"):
                    page = f"{HAS_PAGE[kind]}/{name}.html"
                    if page in site.pages:
                        bad += 1
                        st.violation("unselected-entity-has-page", stratum, f, inp, page, "no page")
                    targets = [(rel, u) for rel, pg in site.pages.items() for (_, a, u) in pg.links if a == "href" and u.split("#")[0].endswith(f"{HAS_PAGE[kind]}/{name}.html")]
                    if targets:
                        bad += 1
                        st.violation("link-to-unselected-entity", stratum, f, inp, targets[:3], "no link to the page of an unselected entity")
        # what a type inherits is filtered with ITS display, not with the display of the type it comes from
        if sel.get("tchild2") and "type/tchild2.html" in alltext:
            d_file = effective([d.lower() for d in display], overrides.get("file-display", []), True)
            for comp, perm in (("cpub", "public"),):  # (private components stay with the module that declares them)
                shown_here = comp in alltext["type/tchild2.html"]
                if shown_here != (perm in d_file):
                    bad += 1
                    st.violation("selected-entity-not-documented" if not shown_here else "unselected-entity-leaks", stratum,
                                 dict(feats, entity=f"tchild2%{comp}", kind="inherited comp", permission=perm, documented=True, parent="tchild2", leak="inherited"), inp,
                                 f"{comp} on type/tchild2.html: {shown_here}", f"shown iff {perm} is displayed for tchild2")
        # undocumented twins are identified by name in declaration tables
        for name in ("uvpub", "uvpriv", "utpub", "ucpub", "uspub", "ubdvar"):
            e = ents[name]
            # (a component of tpub is also listed, as inherited, with the type extending it in lib2)
            present = any(name in t for rel, t in alltext.items() if not (e[4] == "tpub" and rel in ("type/tchild2.html", "module/lib2.html")))
            if sel[name] != present:
                bad += 1
                f = dict(feats, entity=name, kind=e[1], permission=e[2], documented=False, parent=e[4])
                st.violation("unselected-entity-leaks" if present else "selected-entity-not-documented", stratum, dict(f, leak="name"), inp, f"name present={present}", f"selected={sel[name]}")
        # every link resolves (no page of an unselected entity can be linked)
        for (page, tag, attr, url, prob) in site.link_problems()[:3]:
            bad += 1
            st.violation("dangling-link", stratum, dict(feats, entity=url.split("/")[-1].split(".")[0], kind="", permission="", documented="", parent=""), inp,
                         dict(page=page, url=url, problem=prob), "links resolve")
        st.states.add(core.digest(sorted(k for k, v in sel.items() if v)))
        st.stratum(stratum, bad)
        if len(st.samples) < 2 and overrides:
            st.sample(dict(config=inp, selected=sorted(k for k, v in sel.items() if v)))
    finally:
        r.cleanup()


def work(job):
    display, proc_internals, hide_undoc, bound, search, *more = job
    graph = bool(more and more[0])
    st = Stats()

    def run(ch):
        ov = {}
        for name, values in OVERRIDE_SITES:
            v = values[ch.choose(name, len(values))]
            if v is not None:
                ov[name] = v
        return ov

    for ch, ov in explore(run, bound=bound):
        run_config(st, list(display), proc_internals, hide_undoc, ov, search, graph)
    return st


def replay(path):
    import json

    core.use_repo()
    rec = json.loads(open(path).read())
    i = rec["input"]
    st = Stats()
    run_config(st, i["display"], i["proc_internals"], i["hide_undoc"], i["overrides"], i.get("search", False), i.get("graph", False))
    print(i)
    for v in st.violations:
        print("REPRODUCED", v["clause"], v["features"].get("entity"), v["observed"])
    return 1 if st.violations else 0


def main(tier, replay_path=None):
    if replay_path:
        return replay(replay_path)
    t0 = time.time()
    core.use_repo()
    jobs = []
    perms = ["public", "protected", "private"]
    for k in range(0, 4):
        for disp in itertools.combinations(perms, k):
            for pi in (False, True):
                for hu in (False, True):
                    jobs.append((disp, pi, hu, 1 if tier == "quick" else (2 if disp in (("public", "protected"), ("public",), ()) else 1), tier == "thorough" or (pi and not hu)))
    for k in range(0, 4):
        for disp in itertools.combinations(perms, k):
            for pi in (False, True):
                for hu in (False, True) if tier == "thorough" else (False,):
                    jobs.append((disp, pi, hu, 0 if tier == "quick" else 1, False, True))  # graphs as tables
    kk = core.SEED % 3
    jobs = jobs[kk:] + jobs[:kk]
    total = Stats()
    for st in core.pmap(work, jobs):
        total.merge(st)
    return core.finish(
        PROP, tier, "model_checking", total, t0,
        rule=("project display in all 8 subsets of {public, protected, private} (the empty one written as `none`) x proc_internals x hide_undoc, each crossed with every "
              f"combination of <= {1 if tier == 'quick' else 2} metadata overrides over 5 override sites (file / module / type / procedure display, procedure proc_internals); "
              f"{len(ENTS)} tracer-carrying entities judged per build (transitions); states = distinct selected sets"),
        assumptions=[
            "a specific procedure shown as the body of a selected generic interface or type-bound binding counts as part of that item (its own tracer is not judged)",
            "incl_src is off: the verbatim source listing is not documentation text",
            "dummy arguments are part of their procedure",
        ],
        bounds=dict(jobs=len(jobs)),
    )
