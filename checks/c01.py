"""C01 - documented entity tree equals the declared program structure.

Programs are built from the abstract model in mc/fmodel.py; the expected tree is
computed from the model (never from text) and compared with the canonical tree
of the real ford Project after correlate().  Spaces:

  (a) declaration atoms: type-spec x attribute set x entity-decl form x host scope
      (module variable, procedure local, dummy argument, type component)
  (b) structure shapes: all sequences of <= N specification items over a 12-item alphabet
      x procedures x host unit kind, with sentinels before/after
  (d) executable look-alikes: statements whose first identifier starts with a type keyword
each explored with every combination of <= d non-default spelling choices
(keyword case, identifier case of later mentions, END forms, `::`, attribute as
separate statement before/after, kind spellings, blanks ...).
"""
from __future__ import annotations

import itertools
import time

from mc import canon, core, fordrun
from mc.core import Stats
from mc.explore import explore
from mc.fmodel import (ATTRS, TYPE_SPECS, Common, Enum, Fixed, Interface, Namelist, Namelist2, Proc, SourceFile, Style, TypeDef, Unit, Var,
                       VarItem)

PROP = "C01"
DISPLAY_ALL = dict(display=["public", "private", "protected"], proc_internals=True)


def support_items():
    return [Fixed(i) for i in _support_items()]


def _support_items():
    return [
        VarItem(Var("dp", "integer", ["parameter"], initial="8")),
        VarItem(Var("ck", "integer", ["parameter"], initial="1")),
        TypeDef("tname", comps=[Var("tc", "integer")]),
        Interface("abstract", bodies=[Proc("subroutine", "iface", args=[Var("ia", "integer", ["intent_in"])])]),
    ]


def sentinel(n):
    return Fixed(VarItem(Var(f"sent{n}", "logical")))


# ---- space (a): declaration atoms -------------------------------------------

HOST_ATTRS = {
    "module": ["allocatable", "pointer", "target", "save", "volatile", "asynchronous", "dimension", "dimension2", "parameter", "bindc"],
    "local": ["allocatable", "pointer", "target", "save", "volatile", "dimension", "parameter"],
    "dummy": ["optional", "intent_in", "intent_out", "intent_inout", "value", "dimension", "allocatable", "pointer", "target",
              "volatile", "asynchronous"],
    "component": ["allocatable", "pointer", "dimension", "dimension2"],
}


def fix_atom(tspec, attrs, form, host):
    """Return Var (made legal) or None when the combination is not legal Fortran."""
    attrs = list(attrs)
    shape = ""
    initial = None
    points = False
    names = ["xv"]
    if form == "shape":
        shape = "(3)"
    elif form == "shape2":
        shape = "(2, 0:3)"
    elif form == "init":
        initial = {"logical": ".true.", "logical1": ".false.", "char": "'a'", "char10": "'abc'", "charlenkind": "ck_'abc'",
                   "complex8": "(1.0, 2.0)", "dcomplex": "(1.0d0, 2.0d0)", "real": "1.5", "realdp": "1.5_dp",
                   "real8": "2.5d0", "double": "1.0d0", "type": "tname(3)"}.get(tspec, "42")
    elif form == "ptrinit":
        if "pointer" not in attrs:
            attrs.append("pointer")
        initial, points = "null()", True
    elif form == "two":
        names = ["xv", "yv"]
    if any(a.startswith("dimension") for a in attrs) and shape:
        return None
    if "dimension" in attrs and "dimension2" in attrs:
        return None
    if "allocatable" in attrs or "pointer" in attrs:
        if any(a.startswith("dimension") for a in attrs):
            return None
        if shape:
            shape = "(:)" if shape == "(3)" else "(:, :)"
    if "allocatable" in attrs and "pointer" in attrs:
        return None
    if "parameter" in attrs:
        if form in ("ptrinit",) or tspec in ("class", "classstar", "procedure", "charcolon"):
            return None
        if {"allocatable", "pointer", "target", "save", "volatile", "asynchronous", "bindc"} & set(attrs):
            return None
        if initial is None:
            initial = {"logical": ".true.", "logical1": ".false.", "char": "'a'", "char10": "'abc'", "charstar": "'abcd'",
                       "charlenkind": "ck_'abc'", "complex8": "(1.0, 2.0)", "dcomplex": "(1.0d0, 2.0d0)",
                       "type": "tname(3)"}.get(tspec, "7")
            if shape:
                return None
    if tspec == "charstar" and host != "dummy" and "parameter" not in attrs:
        return None
    if tspec == "charcolon" and not ({"allocatable", "pointer"} & set(attrs)):
        return None
    if tspec in ("class", "classstar") and host != "dummy" and not ({"allocatable", "pointer"} & set(attrs)):
        return None
    if tspec == "procedure":
        if host != "dummy" and "pointer" not in attrs:
            attrs.append("pointer")
            if form != "ptrinit" and initial is not None:
                return None
        if shape or form in ("init",) or {"allocatable", "target", "dimension", "dimension2", "value", "volatile", "asynchronous"} & set(attrs):
            return None
    if "value" in attrs and (shape or {"pointer", "allocatable", "intent_out", "intent_inout", "volatile", "dimension"} & set(attrs)):
        return None
    if len([a for a in attrs if a.startswith("intent")]) > 1:
        return None
    if "bindc" in attrs and (tspec not in ("integer", "integer4", "real", "real8", "logical1", "char") or {"allocatable", "pointer"} & set(attrs)):
        return None
    if host == "dummy" and initial is not None:
        return None
    if host == "component" and initial is not None and form == "init" and tspec in ("type",):
        return None
    if ("target" in attrs and "pointer" in attrs) or ("save" in attrs and host == "dummy"):
        return None
    return Var(names, tspec, attrs, shape, initial, points)


def atom_program(var: Var, host):
    items = support_items() + [sentinel(1)]
    procs = []
    if host == "module":
        items.append(VarItem(var))
    elif host == "component":
        items.append(TypeDef("hostt", comps=[Var("before_c", "real"), var, Var("after_c", "real")]))
    elif host == "local":
        procs.append(Proc("subroutine", "hosts", args=[Var("a1", "integer")], decls=[Var("before_l", "real"), var, Var("after_l", "real")],
                          body=["before_l = 1.0"]))
    elif host == "dummy":
        args = [Var("a0", "integer", ["intent_in"])]
        for n in var.names:
            v = Var(n, var.tspec, var.attrs, var.shape, var.initial, var.points)
            args.append(v)
        if len(var.names) > 1:
            # one declaration statement for both dummies
            both = Var(var.names, var.tspec, var.attrs, var.shape, var.initial, var.points, role="arg")
            p = Proc("subroutine", "hosts", args=[args[0]] + list(var.names), decls=[both], body=["continue"])
            # the names are dummies: expected under role 'arg'
            p._multi = both
        else:
            p = Proc("subroutine", "hosts", args=args, body=["continue"])
        procs.append(p)
    items.append(sentinel(2))
    return SourceFile("m.f90", [Unit("module", "m", items=items, procs=procs)])


def gen_atoms(tier):
    forms = ["plain", "shape", "init", "ptrinit", "two", "shape2"]
    seen = set()
    for host, attrs_all in HOST_ATTRS.items():
        combos = []
        for (label, _, _) in TYPE_SPECS:
            combos.append((label, (), "plain"))
            for a in attrs_all:
                combos.append((label, (a,), "plain"))
            for f in forms[1:]:
                combos.append((label, (), f))
        for a, b in itertools.combinations(attrs_all, 2):
            for label in ("integer", "realdp", "char10") if tier == "thorough" else ("realdp",):
                combos.append((label, (a, b), "plain"))
                combos.append((label, (a, b), "shape"))
        for a in attrs_all:
            for f in forms[1:]:
                for label in ("integer", "char10", "type"):
                    combos.append((label, (a,), f))
        for (label, attrs, form) in combos:
            v = fix_atom(label, attrs, form, host)
            if v is None:
                continue
            k = (host, v.tspec, tuple(sorted(v.attrs)), v.shape, v.initial, tuple(v.names))
            if k in seen:
                continue
            seen.add(k)
            yield ("atom", host, v.tspec, tuple(v.attrs), v.shape, v.initial, v.points, tuple(v.names))


LIT1 = ["'a'", "'long string here'", "''", "'it''s, here'", '"say ""hi"" = now"']
LIT2 = ['"x, y = 3"', "'q(1) = f(2)'", "'!not;comment&'", '""', "'real :: z'"]


def gen_twolit(tier):
    for host in ("module", "local"):
        for a, b in itertools.product(LIT1, LIT2):
            for param in (False, True):
                yield ("atom", host, "char10", ("parameter",) if param else (), "", (a, b), False, ("xv", "yv"))


def build_atom(case):
    _, host, tspec, attrs, shape, initial, points, names = case
    var = Var(list(names), tspec, list(attrs), shape, initial, points)
    sf = atom_program(var, host)
    return sf


def fix_multi_expected(sf, want):
    """two dummies declared by one statement: expected as args (role arg), not as locals."""
    for u in sf.units:
        for p in getattr(u, "procs", []):
            if getattr(p, "_multi", None) is not None:
                names = {n.lower() for n in p._multi.names}
                want = [r for r in want if not (r["kind"] == "variable" and r["name"] in names and r.get("role") == "arg" and "vartype" in r and r.get("shape") is None)]
                # implicit placeholders generated for str args are replaced by the declared ones
                keep = []
                for r in want:
                    if r["kind"] == "variable" and r["name"] in names and r["path"].endswith("proc:hosts") and set(r) <= {"path", "kind", "name", "role", "vartype", "attribs", "shape"}:
                        continue
                    keep.append(r)
                want = keep
    return want


# ---- space (b): structure shapes --------------------------------------------

def spec_alphabet(i):
    """the i-th instance of each of the 12 specification items (names made unique with i)."""
    s = str(i)
    return {
        "var": lambda: VarItem(Var(f"va{s}", "realdp", ["save"], shape="(3)")),
        "emptytype": lambda: TypeDef(f"te{s}"),
        "fulltype": lambda: _fulltype(s),
        "generic-modproc": lambda: Interface("generic", f"gm{s}", modprocs=[f"gma{s}", f"gmb{s}"],
                                             impls=[Proc("subroutine", f"gma{s}", args=[Var("x", "integer", ["intent_in"])]),
                                                    Proc("subroutine", f"gmb{s}", args=[Var("x", "real", ["intent_in"])])]),
        "generic-bodies": lambda: Interface("generic", f"gb{s}",
                                            bodies=[Proc("subroutine", f"gba{s}", args=[Var("x", "integer")]),
                                                    Proc("function", f"gbb{s}", args=[Var("x", "real")], rettype="real")]),
        "operator": lambda: Interface("operator", f"operator(.op{s}.)", modprocs=[f"opf{s}"],
                                      impls=[Proc("function", f"opf{s}", args=[Var("a", "integer", ["intent_in"]), Var("b", "integer", ["intent_in"])],
                                                  rettype="integer", prefixes=["pure"])]),
        "assignment": lambda: Interface("assignment", "assignment(=)", modprocs=[f"asg{s}"],
                                        impls=[Proc("subroutine", f"asg{s}", args=[Var("l", "logical", ["intent_out"]), Var("r", "integer", ["intent_in"])])]),
        "abstract": lambda: Interface("abstract", bodies=[Proc("function", f"ai{s}", args=[Var("x", "realdp", ["intent_in"])], result=f"air{s}")]),
        "explicit": lambda: Interface("explicit", bodies=[Proc("subroutine", f"ex{s}", args=[Var("n", "integer", ["value"])], bindc=f"c_ex{s}")]),
        "enum": lambda: Enum([(f"ea{s}", None), (f"eb{s}", "5"), (f"ec{s}", None)]),
        "enum-expr": lambda: Enum([(f"ka{s}", "1_c_int"), (f"kb{s}", None), (f"kc{s}", f"ka{s} + 2"), (f"kd{s}", None), (f"ke{s}", "7_8")]),
        "common": lambda: Common(f"cb{s}", [Var(f"cx{s}", "integer"), Var(f"cy{s}", "integer", shape="(2)")]),
        "namelist": lambda: Namelist(f"nl{s}", [Var(f"nx{s}", "integer"), Var(f"ny{s}", "real")]),
        "namelist2": lambda: Namelist2(f"na{s}", [Var(f"px{s}", "integer"), Var(f"py{s}", "real")], f"nb{s}", [Var(f"pz{s}", "integer")]),
    }


def _fulltype(s):
    return _TypeWithImpls(
        f"tf{s}", comps=[Var(f"fa{s}", "integer"), Var(f"fb{s}", "realdp", ["allocatable"], shape="(:)")],
        bindings=[(f"bm{s}", f"bimpl{s}", None), (f"bn{s}", None, None)],
        generics=[(f"bg{s}", [f"bm{s}", f"bn{s}"])], finals=[f"fin{s}"],
        impls=[Proc("subroutine", f"bimpl{s}", args=[Var("self", "class_tf" + s), Var("k", "integer")]),
               Proc("subroutine", f"bn{s}", args=[Var("self", "class_tf" + s), Var("k", "real")]),
               Proc("subroutine", f"fin{s}", args=[Var("self", "type_tf" + s)])])


class _TypeWithImpls(TypeDef):
    def __init__(self, *a, impls=(), **k):
        super().__init__(*a, **k)
        self.impls = list(impls)

    def contains(self, st, site):
        out = []
        for i, p in enumerate(self.impls):
            out += p.lines(st, f"{site}:impl{i}")
        return out

    def records(self, path):
        out = super().records(path)
        for p in self.impls:
            p.role = "proc"
            out += p.records(path)
        return out


def _register_dynamic_typespecs():
    from mc import fmodel

    for i in range(1, 5):
        for k in ("class", "type"):
            lab = f"{k}_tf{i}"
            if lab not in fmodel.TYPE_SPEC:
                fmodel.TYPE_SPEC[lab] = (lab, [f"{k}(tf{i})"], dict(vartype=k, proto=f"tf{i}"))


_register_dynamic_typespecs()

SPEC_KEYS = ["var", "emptytype", "fulltype", "generic-modproc", "generic-bodies", "operator", "assignment", "abstract", "explicit",
             "enum", "common", "namelist", "enum-expr", "namelist2"]
PROC_KEYS = ["sub", "fn", "fn-result", "sub-internal", "fn-typed", "fn-result-attrs", "fn-name-attrs", "fn-typed-attrs", "fn-typed-charkind"]


def proc_alphabet(i):
    s = str(i)
    return {
        "sub": lambda: Proc("subroutine", f"ps{s}", args=[Var("n", "integer", ["intent_in"]), Var("x", "realdp", ["intent_inout"], shape="(n)")],
                            decls=[Var(f"loc{s}", "integer")], body=[f"loc{s} = n"]),
        "fn": lambda: Proc("function", f"pf{s}", args=[Var("x", "real", ["intent_in"])], body=[f"pf{s} = x"]),
        "fn-result": lambda: Proc("function", f"pr{s}", args=[Var("x", "real")], result=f"res{s}", prefixes=["pure"], body=[f"res{s} = x"]),
        "fn-result-attrs": lambda: Proc("function", f"pq{s}", args=[Var("x", "real")], result=f"rq{s}", result_attrs=["dimension", "target"], body=[f"rq{s} = x"]),
        "fn-name-attrs": lambda: Proc("function", f"pn{s}", args=[Var("x", "real")], result_attrs=["dimension"], body=[f"pn{s} = x"]),
        "sub-internal": lambda: Proc("subroutine", f"pi{s}", args=[], decls=[Var(f"w{s}", "real")],
                                     internal=[Proc("subroutine", f"in{s}a", args=[Var("q", "integer")]),
                                               Proc("function", f"in{s}b", args=[], rettype="integer", body=[f"in{s}b = 1"])],
                                     body=[f"w{s} = 1.0"]),
        # type in the prefix, attributes of the result in statements of their own, next to an implicitly typed dummy argument
        "fn-typed-attrs": lambda: Proc("function", f"pa{s}", args=["k", Var("a", "integer")], rettype="real", result_attrs=["dimension", "target"],
                                       body=[f"pa{s} = a + k"]),
        # a character literal in the type written in the prefix
        "fn-typed-charkind": lambda: Proc("function", f"pc{s}", args=[Var("a", "integer")], rettype="charkindlit", result=f"rc{s}", body=[f"rc{s} = 'abc'"]),
        "fn-typed": lambda: Proc("function", f"pt{s}", args=[Var("a", "integer"), Var("b", "integer", ["optional"])], rettype="realdp",
                                 prefixes=["elemental"], body=[f"pt{s} = a"]),
    }


def build_shape(case):
    _, unit_kind, spec_seq, proc_seq = case
    items = [VarItem(Var("dp", "integer", ["parameter"], initial="8")), sentinel(1)]
    for i, k in enumerate(spec_seq, 1):
        items.append(spec_alphabet(i)[k]())
    items.append(sentinel(2))
    procs = [proc_alphabet(i)[k]() for i, k in enumerate(proc_seq, 1)]
    units = []
    if unit_kind == "module":
        units.append(Unit("module", "m", items=items, procs=procs))
    elif unit_kind == "program":
        units.append(Unit("program", "m", items=items, procs=procs, body=["continue"]))
    elif unit_kind == "submodule":
        units.append(Unit("module", "par", items=[VarItem(Var("pv", "integer"))]))
        units.append(Unit("submodule", "m", items=items, procs=procs, ancestor="par"))
    elif unit_kind == "external":
        # items live inside an external subroutine; procedures become internal procedures
        p = Proc("subroutine", "m", args=[], items=items, internal=procs, body=["continue"])
        units.append(p)
    return SourceFile("m.f90", units)


def shape_legal(unit_kind, spec_seq, proc_seq):
    if unit_kind in ("program", "external"):
        # module procedures / type-bound implementations need a module; keep generic interfaces by bodies
        if any(k in ("generic-modproc", "operator", "assignment", "fulltype") for k in spec_seq):
            return False
    if unit_kind == "external" and any(k == "sub-internal" for k in proc_seq):
        return False  # internal procedures cannot nest
    if list(spec_seq).count("assignment") > 1:
        return False
    return True


def gen_shapes(tier):
    """(case, deviation bound).  Every shape is run with the default spelling; the deviation-bounded
    exploration is applied to the sub-family named per tier."""
    units = ("module", "program", "submodule", "external")
    def fam(unit_kinds, ns_max, np_max):
        for unit_kind in unit_kinds:
            for ns in range(0, ns_max + 1):
                for spec_seq in itertools.product(SPEC_KEYS, repeat=ns):
                    for npr in range(0, np_max + 1):
                        for proc_seq in itertools.product(PROC_KEYS, repeat=npr):
                            if shape_legal(unit_kind, spec_seq, proc_seq):
                                yield ("shape", unit_kind, spec_seq, proc_seq)
    done = {}
    def emit(cases, bound):
        for c in cases:
            if done.get(c, -1) < bound:
                done[c] = bound
    if tier == "quick":
        emit(fam(units, 2, 1), 0)
        emit(fam(units, 1, 1), 1)
    else:
        emit(fam(units, 3, 1), 0)
        emit(fam(units, 2, 2), 0)
        emit(fam(units, 2, 1), 1)
        emit(fam(("module",), 1, 1), 2)
        emit(fam(units, 1, 0), 2)
    return [(c, b) for c, b in done.items()]


# ---- space (d): executable look-alikes -----------------------------------------

LOOKALIKES = [
    "real_x = 1", "integer_fn(3) = 2", "type_v%tc = 1", "data_1 = 2", "procedure_count = 0", "class_of = 1",
    "character_pos(2) = 'a'", "logical_flag = .true.", "double_precision = 1.0d0", "enumerator_i = 3",
    "use_count = use_count + 1", "interface_id = 4", "module_v = 5", "function_value = 6", "subroutine_n = 7",
    "common_factor = 8", "namelist_len = 9", "final_result = 10", "generic_n = 11", "contains_flag = 12",
    "end_index = 13", "public_n = 14", "private_n = 15", "dimension_n = 16", "parameter_n = 17", "save_n = 18",
    "if (real_x > 0) integer_fn(1) = 3", "print *, 'integer :: fake, real :: also_fake'", "allocate(integer_fn(4))",
    "external_n = 19", "intent_n = 20", "optional_n = 21", "pointer_n = 22", "target_n = 23", "block_n = 24",
    "enum_n = 25", "program_n = 26", "submodule_n = 27", "type_n = 28", "abstract_n = 29", "import_n = 30", "implicit_n = 31",
    # variables whose name is a whole keyword
    "include = 32", "include (2) = 33", "format = 34", "call = 35", "stop = 36", "contains = 37", "end = 38", "data = 39",
]


def build_lookalike(case):
    _, host, stmts = case
    names = ["real_x", "data_1", "procedure_count", "class_of", "logical_flag", "double_precision", "enumerator_i", "use_count",
             "interface_id", "module_v", "function_value", "subroutine_n", "common_factor", "namelist_len", "final_result",
             "generic_n", "contains_flag", "end_index", "public_n", "private_n", "dimension_n", "parameter_n", "save_n",
             "external_n", "intent_n", "optional_n", "pointer_n", "target_n", "block_n", "enum_n", "program_n", "submodule_n",
             "type_n", "abstract_n", "import_n", "implicit_n", "format", "call", "stop", "contains", "end", "data"]
    decls = [Var(n, "integer") for n in names]
    decls += [Var("include", "integer", shape="(3)"), Var("integer_fn", "integer", shape="(5)"), Var("character_pos", "char", shape="(3)"), Var("type_v", "type")]
    body = list(stmts)
    if host == "program":
        u = Unit("program", "m", items=[Fixed(TypeDef("tname", comps=[Var("tc", "integer")]))] + [Fixed(VarItem(d)) for d in decls], body=body)
        return SourceFile("m.f90", [u])
    p = Proc("subroutine", "hosts", args=[], items=[Fixed(VarItem(d)) for d in decls], body=body)
    u = Unit("module", "m", items=[TypeDef("tname", comps=[Var("tc", "integer")])], procs=[p])
    return SourceFile("m.f90", [u])


def gen_lookalikes(tier):
    for host in ("module-proc", "program"):
        for s in LOOKALIKES:
            yield ("lookalike", host, (s,))
        if tier == "thorough":
            for a, b in itertools.permutations(LOOKALIKES[:16], 2):
                yield ("lookalike", host, (a, b))


# ---- running -------------------------------------------------------------------

# ---- space (e): several program units in one file -------------------------------

UNIT_KEYS = ["module", "program", "blockdata", "ext-sub", "ext-fn", "submodule", "nested-sub", "nested-sub-rev"]


def unit_alphabet(i, first_module):
    s = str(i)
    return {
        "module": lambda: Unit("module", f"um{s}", items=[VarItem(Var(f"uv{s}", "integer"))],
                               procs=[Proc("subroutine", f"us{s}", args=[Var("x", "integer", ["intent_in"])])]),
        "program": lambda: Unit("program", "uprog", items=[VarItem(Var("upv", "real"))], body=["continue"],
                                procs=[Proc("function", "upf", args=[], rettype="integer", body=["upf = 1"])]),
        "blockdata": lambda: Unit("blockdata", f"ub{s}", items=[Common(f"uc{s}", [Var(f"ucx{s}", "integer"), Var(f"ucy{s}", "real")])],
                                  body=[f"data ucx{s} /1/"]),
        "ext-sub": lambda: Proc("subroutine", f"xs{s}", args=[Var("a", "real", ["intent_inout"])], decls=[Var(f"xl{s}", "integer")],
                                body=[f"xl{s} = 1"]),
        "ext-fn": lambda: Proc("function", f"xf{s}", args=[Var("a", "real")], rettype="integer", body=[f"xf{s} = 1"]),
        "submodule": lambda: Unit("submodule", f"usm{s}", items=[VarItem(Var(f"usv{s}", "integer"))], ancestor=first_module,
                                  procs=[Proc("subroutine", f"uss{s}", args=[])]),
    }


def build_files(case):
    _, _, seq = case
    first_module = next((f"um{i}" for i, k in enumerate(seq, 1) if k == "module"), None)
    units = []
    for i, k in enumerate(seq, 1):
        if k in ("nested-sub", "nested-sub-rev"):
            # a submodule and a submodule of it; the child's name sorts before ("nested-sub") or after its parent's
            par, child = (f"zpar{i}", f"achild{i}") if k == "nested-sub" else (f"apar{i}", f"zchild{i}")
            units.append(Unit("submodule", par, items=[VarItem(Var(f"pv{i}", "integer"))], ancestor=first_module, procs=[Proc("subroutine", f"ps{i}", args=[])]))
            units.append(Unit("submodule", child, items=[VarItem(Var(f"cv{i}", "real"))], ancestor=first_module, parent_submodule=par,
                              procs=[Proc("function", f"cf{i}", args=[], rettype="integer", body=[f"cf{i} = 1"])]))
        else:
            units.append(unit_alphabet(i, first_module)[k]())
    return SourceFile("m.f90", units)


def gen_files(tier):
    """every sequence of <= 3 program units in one file (a program at most once; a submodule needs a module in the file)"""
    out = []
    for n in (1, 2, 3):
        for seq in itertools.product(UNIT_KEYS, repeat=n):
            if seq.count("program") > 1 or (({"submodule", "nested-sub", "nested-sub-rev"} & set(seq)) and "module" not in seq):
                continue
            if tier == "quick":
                b = 1 if n <= 2 or "blockdata" in seq else 0
            else:
                b = 2 if n <= 2 or "blockdata" in seq else 1
            out.append((("files", f"n{n}", seq), b))
    return out


# ---- space (f): INCLUDE is transparent ---------------------------------------------------------------
def build_inc(case):
    """two modules in two directories; the specification part of each is moved into an include file of the
    same name (`decls.inc`) beside its source file (see run_case)."""
    _, _, k1, k2 = case
    sfs = []
    for idx, (k, mname) in enumerate(((k1, "ma"), (k2, "mb")), 1):
        items = [VarItem(Var(f"dp{idx}", "integer", ["parameter"], initial="8")), spec_alphabet(idx)[k](), VarItem(Var(f"tail{idx}", "real"))]
        procs = [proc_alphabet(idx)["sub"]()]
        sfs.append(SourceFile(f"{mname}.f90", [Unit("module", mname, items=items, procs=procs)]))
    return sfs


INCLUDE_SPELLINGS = ["  include 'decls.inc'", "  INCLUDE 'decls.inc'", "  include'decls.inc'", '  include "decls.inc"', "      Include   'decls.inc'"]


def to_include(text, spelling=0):
    """move the lines between the module statement (+ implicit none) and CONTAINS into an include file"""
    L = text.rstrip("\n").split("\n")
    start = 1
    for i, l in enumerate(L):
        if l.strip().lower() == "implicit none":
            start = i + 1
            break
    end = next(i for i, l in enumerate(L) if l.strip().lower() == "contains")
    return "\n".join(L[:start] + [INCLUDE_SPELLINGS[spelling]] + L[end:]) + "\n", "\n".join(L[start:end]) + "\n"


def gen_inc(tier):
    ks = [k for k in SPEC_KEYS if k not in ("generic-modproc", "operator", "assignment", "fulltype")]
    for mode in ("two-dirs", "one-dir-one-incdir", "inline"):
        for k1, k2 in itertools.product(ks, ks):
            yield (("inc", mode, k1, k2), 1 if (tier != "quick" or (k1, k2) == ("var", "var")) else 0)


BUILDERS = {"inc": build_inc, "atom": build_atom, "shape": build_shape, "lookalike": build_lookalike, "files": build_files}
IGNORE_FIELDS = ()


def run_case(st: Stats, case, bound):
    builder = BUILDERS[case[0]]
    stratum = case[0] + ("/" + case[1] if case[0] != "lookalike" else "")
    base_obs = [None]

    def run(ch):
        sf = builder(case)
        style = Style(ch)
        if case[0] == "inc":
            files, want = {}, []
            for d, one in zip(("a", "b"), sf):
                text = one.text(style)
                want += one.records()
                if case[1] == "inline":
                    files[f"src/{d}/{one.name}"] = text
                    continue
                main, inc = to_include(text, ch.choose("include-spelling", len(INCLUDE_SPELLINGS)) if ch is not None else 0)
                # a further include file that holds no statement at all (empty / comments only) changes nothing
                nothing = ch.choose("include-of-nothing", 3) if ch is not None else 0
                if nothing:
                    main = main.replace("\ncontains", "\n  include 'nothing.inc'\ncontains", 1)
                    files[f"src/{d}/nothing.inc"] = "" if nothing == 1 else "! only a comment\n\n! and another\n"
                files[f"src/{d}/{one.name}"] = main
                # both include files carry the same name; the second one lives beside its source or in the include directory
                files[f"src/{d}/decls.inc" if (case[1] == "two-dirs" or d == "a") else "inc/decls.inc"] = inc
            r = fordrun.build_fast(files, dict(DISPLAY_ALL, include=["inc"]))
            return sf, "\n".join(f"----- {k}\n{v}" for k, v in sorted(files.items())), want, r
        text = sf.text(style)
        want = sf.records()
        if case[0] == "atom":
            want = fix_multi_expected(sf, want)
        if case[0] in ("files", "shape") and ch is not None and ch.choose("byte-order-mark", 2):
            text = "\ufeff" + text  # the file was saved with a UTF-8 byte-order mark in front
        r = fordrun.build_fast({"src/m.f90": text}, DISPLAY_ALL)
        return sf, text, want, r

    for ch, (sf, text, want, r) in explore(run, bound=bound):
        st.evaluations += 1
        st.transitions += len(ch.trace)
        devs = [(l, c) for (l, n, c) in ch.trace if c]
        inp = dict(case=list(case), choices=devs, source=text)
        feats = dict(space=case[0], host=case[1], deviations=",".join(l.split(":")[-2] + ":" + l.split(":")[-1] if ":" in l else l for l, _ in devs),
                     n_dev=len(devs))
        if r.error is not None or r.project is None or not r.project.files or "ERROR in file" in r.log or "Error parsing" in r.log:
            st.violation("ford-failed-on-wellformed-input", stratum, feats, inp, (repr(r.error) + " " + r.log[-300:]).strip(), "parses")
            st.stratum(stratum, 1)
            continue
        got = canon.tree(r.project)
        d = canon.diff(got, want, IGNORE_FIELDS)
        st.states.add(core.digest(got))
        st.nontrivial.add(core.digest([case, devs]))
        if d:
            st.stratum(stratum, 1)
            # one violation record per distinct kind of difference
            for what, key, detail in d[:4]:
                f = dict(feats)
                f.update(diff=what, entity_kind=key[1], entity=key[2], role=key[3])
                st.violation(what.split(":")[0] if what.startswith("field") else what, stratum, f, inp,
                             dict(diff=what, key=list(key), detail=detail), "tree equals declared structure")
        else:
            st.stratum(stratum, 0)
        if not devs and len(st.samples) < 2:
            st.sample(dict(case=list(case), source=text, n_records=len(want)))


def work(chunk):
    st = Stats()
    for case, bound in chunk:
        if case[0] == "commonmember":
            run_common_member(st, case)
        else:
            run_case(st, case, bound)
    return st


# ---- members of COMMON blocks: variables of the scope holding the statement --------------------------------------------
def run_common_member(st: Stats, case):
    """`common /blk/ xq` in a procedure: xq is that procedure's variable - declared there (before or after the statement,
    with the bounds in either place) or implicitly typed - never the equally named variable of the host module."""
    _, in_module, local, bounds = case
    L = ["module m"] + (["  integer :: xq"] if in_module else []) + ["contains", "  subroutine s()"]
    decl = {"none": [], "before": ["    double precision xq" + ("(4)" if bounds == "decl" else "")], "after": ["    double precision xq" + ("(4)" if bounds == "decl" else "")]}[local]
    com = ["    common /blk/ xq" + ("(4)" if bounds == "common" else "") + ", kount"]
    L += (decl + com if local != "after" else com + decl) + ["  end subroutine s", "end module m"]
    src = "\n".join(L) + "\n"
    r = fordrun.build_fast({"src/m.f90": src}, DISPLAY_ALL)
    st.evaluations += 1
    st.transitions += 1
    stratum = "common-member"
    feats = dict(space="common-member", host="module" if in_module else "none", deviations=f"{local}/{bounds}", n_dev=0)
    inp = dict(case=list(case), choices=[], source=src)
    st.nontrivial.add(core.digest(list(case)))
    if r.error is not None or not r.project or not r.project.modules or "Error parsing" in r.log:
        st.violation("ford-failed-on-wellformed-input", stratum, feats, inp, (repr(r.error) + " " + r.log[-300:]).strip(), "parses")
        st.stratum(stratum, 1)
        return
    m = r.project.modules[0]
    sub = m.subroutines[0]
    cb = sub.common[0] if getattr(sub, "common", None) else None
    got = [(getattr(v, "name", str(v)).lower(), (getattr(v, "vartype", "") or "").lower(), canon.nb(getattr(v, "dimension", "") or ""),
            type(getattr(v, "parent", None)).__name__.replace("Fortran", "").lower()) for v in (cb.variables if cb else [])]
    got_mod = sorted((v.name.lower(), v.vartype) for v in m.variables)
    want = [("xq", "double precision" if local != "none" else "real", "(4)" if bounds != "none" else "", "subroutine" if local != "none" else "common"),
            ("kount", "integer", "", "common")]
    want_mod = [("xq", "integer")] if in_module else []
    st.states.add(core.digest([case, got, got_mod]))
    if got != want or got_mod != want_mod:
        st.violation("field", stratum, dict(feats, diff="common-member", entity_kind="variable", entity="xq", role="variable"), inp,
                     dict(members=got, module_variables=got_mod), dict(members=want, module_variables=want_mod))
        st.stratum(stratum, 1)
    else:
        st.stratum(stratum, 0)


def gen_common_members(tier):
    for in_module in (False, True):
        for local in ("none", "before", "after"):
            for bounds in ("none", "common") + (("decl",) if local != "none" else ()):
                yield ("commonmember", in_module, local, bounds)


def all_cases(tier):
    b = 1 if tier == "quick" else 2
    return [(c, b) for c in itertools.chain(gen_atoms(tier), gen_twolit(tier))] + gen_shapes(tier) + [(c, 1) for c in gen_lookalikes(tier)] + gen_files(tier) + list(gen_inc(tier)) + [(c, 0) for c in gen_common_members(tier)]


def replay(path):
    import json

    core.use_repo()
    rec = json.loads(open(path).read())
    src = rec["input"]["source"]
    print(src)
    print("previously:", json.dumps(rec["observed"]), rec["features"])
    r = fordrun.build_fast({"src/m.f90": src}, DISPLAY_ALL)
    print(r.log[-500:], r.error)
    case = rec["input"]["case"]
    case = tuple(tuple(x) if isinstance(x, list) else x for x in case)
    if case[0] == "commonmember":
        st = Stats()
        run_common_member(st, case)
        for v in st.violations:
            print("REPRODUCED", v["observed"], "expected", v["expected"])
        return 1 if st.violations else 0
    sf = BUILDERS[case[0]](case)
    from mc.explore import Chooser

    # re-render with the recorded deviations is not needed: compare against the model's records
    want = sf.records()
    if case[0] == "atom":
        want = fix_multi_expected(sf, want)
    d = canon.diff(canon.tree(r.project), want)
    for x in d:
        print("DIFF", x)
    return 1 if d else 0


def main(tier, replay_path=None):
    if replay_path:
        return replay(replay_path)
    t0 = time.time()
    core.use_repo()
    bound = 1 if tier == "quick" else 2
    cases = all_cases(tier)
    k = core.SEED % 5
    cases = cases[k:] + cases[:k]
    cases.sort(key=lambda cb: -cb[1])  # expensive (deep) cases first, for load balance
    nchunks = core.WORKERS * 16
    chunks = [cases[i::nchunks] for i in range(nchunks)]
    chunks = [c for c in chunks if c]
    total = Stats()
    for st in core.pmap(work, chunks):
        total.merge(st)
    return core.finish(
        PROP, tier, "model_checking", total, t0,
        rule=(f"{len(cases)} abstract programs (declaration atoms per host scope; all sequences of specification items x procedures x unit kind; "
              f"executable look-alikes; all sequences of <= 3 program units incl. block data in one file), each explored with every combination of <= {bound} non-default spelling choices of the renderer; "
              "distinct_nontrivial = distinct (program, deviation set); states = distinct canonical trees observed; transitions = choice points passed"),
        assumptions=[
            "alternate returns, ENTRY, implicit typing of locals, EQUIVALENCE/DATA, EXTERNAL attribute, character*n entity lengths and identifiers equal to type keywords are outside the supported subset and not generated",
            "expected records list only the fields the model defines; dimension attribute and entity-decl shape, parameter/optional flag and attribute are identified",
            "accessibility is C04's subject and not compared here",
        ],
        bounds=dict(programs=len(cases), deviation_bound=bound),
    )
