"""C16 - links into an externalised project hit the right pages of that project.

Histories  [build A(opts1)] [rebuild A(opts2)]? [damage modules.json]? [build B]:
A is a library project (module with every public / private entity kind, a
submodule, a second module re-exporting the first) built with `externalize`;
B uses, extends, calls and names ([[...]], with and without ext qualifier) A's
entities.  Dimensions: A's options {default, display private, incl_src off,
sort alpha}; rebuild of A with other options before B; the external given as
relative path / absolute path / http URL with and without trailing slash (urlopen
is stubbed to serve A's output directory); name clashes (B defines its own module
/ type / procedure with a name A exports); damage to modules.json {absent, empty,
truncated at EVERY structural boundary, not JSON, JSON of the wrong shape}.
Oracle: modules.json lists exactly A's modules with exactly their public
entities; every URL in B that leaves B's tree resolves inside A's output to a page
(and anchor) documenting the same-named entity; B's own entities win on clashes;
a damaged description costs only the links, not the run.
"""
from __future__ import annotations

import io
import itertools
import json
import os
import posixpath
import re
import shutil
import time
import urllib.parse
from pathlib import Path

from mc import core, fordrun
from mc.core import Stats
from mc.site import Site

PROP = "C16"
BASE_URL = "http://a.example/docs/alib"

A_SRC = {
    "src/alib.f90": """module alib
  !! library module
  implicit none
  private :: priv_sub, priv_t, priv_var, agen_i
  integer :: avar
  !! public variable
  integer :: priv_var
  type shape_t
    !! public type
    integer :: comp
  contains
    procedure :: area
  end type shape_t
  type priv_t
    integer :: q
  end type priv_t
  interface agen
    !! public generic
    module procedure agen_i
  end interface agen
  abstract interface
    subroutine aabs(n)
      !! public abstract interface
      integer :: n
    end subroutine aabs
  end interface
contains
  subroutine asub(x)
    !! public subroutine
    integer :: x
  end subroutine asub
  integer function afun()
    !! public function
    afun = 1
  end function afun
  real function area(self)
    class(shape_t) :: self
    area = 1.0
  end function area
  subroutine agen_i(i)
    integer :: i
  end subroutine agen_i
  subroutine priv_sub()
  end subroutine priv_sub
end module alib
module alib2
  !! second library module re-exporting the first
  use alib
  implicit none
  integer :: second_var
contains
  subroutine second_sub()
  end subroutine second_sub
end module alib2
""",
    # a third module whose public names repeat those of the first: two entities of one kind and name in one library
    "src/alib3.f90": """module alib3
  !! third library module
  implicit none
  type shape_t
    !! another shape_t of alib3
    integer :: comp3
  end type shape_t
contains
  subroutine asub(y)
    !! another asub of alib3
    real :: y
  end subroutine asub
end module alib3
""",
    # a procedure with a page of its own (alib6) named like an interface body that lives on a generic interface's page (alib5)
    "src/alib5.f90": """module alib5
  !! fifth library module
  implicit none
  interface unit_length
    !! generic made of an interface body
    subroutine scale_it(v)
      !! scale_it, the external procedure described by an interface body of alib5
      real :: v
    end subroutine scale_it
  end interface unit_length
end module alib5
module alib6
  !! sixth library module
  implicit none
contains
  subroutine scale_it(w)
    !! scale_it of alib6
    integer :: w
  end subroutine scale_it
end module alib6
""",
    # public entities without any documentation: with hide_undoc they have no page in A's documentation, but they are still distinct entities
    "src/alib7.f90": """module alib7
  !! seventh library module
  implicit none
  type ua_t
    integer :: ca
  end type ua_t
  type ub_t
    integer :: cb
  end type ub_t
  type uc_t
    integer :: cc
  end type uc_t
contains
  subroutine ua_sub()
  end subroutine ua_sub
  subroutine ub_sub()
  end subroutine ub_sub
end module alib7
""",
    # a module that re-exports entities of the first under new names
    "src/alib4.f90": """module alib4
  !! fourth library module
  use alib, only: packet => shape_t, api_sub => asub
  implicit none
end module alib4
""",
}
A_PUBLIC = {"alib": {"pub_procs": {"asub", "afun", "agen", "area"}, "pub_types": {"shape_t"}, "pub_vars": {"avar"}, "pub_absints": {"aabs"}},
            "alib2": {"pub_procs": {"asub", "afun", "agen", "area", "second_sub"}, "pub_types": {"shape_t"}, "pub_vars": {"avar", "second_var"}, "pub_absints": {"aabs"}},
            "alib3": {"pub_procs": {"asub"}, "pub_types": {"shape_t"}, "pub_vars": set(), "pub_absints": set()},
            "alib4": {"pub_procs": {"api_sub"}, "pub_types": {"packet"}, "pub_vars": set(), "pub_absints": set()},
            "alib5": {"pub_procs": {"unit_length", "scale_it"}, "pub_types": set(), "pub_vars": set(), "pub_absints": set()},
            "alib6": {"pub_procs": {"scale_it"}, "pub_types": set(), "pub_vars": set(), "pub_absints": set()},
            "alib7": {"pub_procs": {"ua_sub", "ub_sub"}, "pub_types": {"ua_t", "ub_t", "uc_t"}, "pub_vars": set(), "pub_absints": set()}}
# text found only on the page of A that documents (module, entity)
A_MARK = {("alib6", "scale_it"): "scale_it of alib6", ("alib", "shape_t"): "public type", ("alib3", "shape_t"): "another shape_t of alib3", ("alib", "asub"): "public subroutine", ("alib3", "asub"): "another asub of alib3"}

B9_SRC = """module bmod9
  !! binds a procedure of the library to a type that extends the library's type
  use alib
  implicit none
  type, extends(shape_t) :: b9_t
    !! extends the library type
    integer :: extra9
  contains
    procedure, nopass :: run9 => asub
    !! bound to the library's procedure
  end type b9_t
end module bmod9
"""
B8_SRC = """module bmod8
  !! uses the undocumented entities of alib7
  use alib7
  implicit none
  type(uc_t) :: x8c
  type(ub_t) :: x8b
  type(ua_t) :: x8a
contains
  subroutine caller8()
    call ub_sub()
  end subroutine caller8
end module bmod8
"""
B3_SRC = """module bmod3
  !! B's second module uses the third library module {refs3}
  use alib3
  implicit none
  type(shape_t) :: holder3
  !! variable of the other external type
contains
  subroutine bsub3()
    !! calls the other asub
    call asub(1.0)
  end subroutine bsub3
end module bmod3
module bmod7
  !! a procedure pointer whose interface is a procedure of the library
  use alib6
  implicit none
  procedure(scale_it), pointer :: pp7
  !! points at something like scale_it
end module bmod7
module bmod5
  !! uses entities the library re-exports under new names
  use alib4
  implicit none
  type(packet) :: holder5
  !! variable of a renamed external type
  type, extends(packet) :: b5_t
    !! extends the renamed external type
    integer :: extra5
  end type b5_t
end module bmod5
module bmod4
  !! interface bodies that import from the library themselves
  implicit none
  interface
    subroutine cb(s)
      !! explicit interface
      use alib, only: shape_t
      type(shape_t) :: s
    end subroutine cb
  end interface
  interface gcb
    !! generic made of a body
    subroutine cb2(s)
      !! body in a generic
      use alib
      type(shape_t) :: s
    end subroutine cb2
  end interface gcb
  abstract interface
    subroutine acb(s)
      !! abstract interface
      use alib, only: shape_t
      type(shape_t) :: s
    end subroutine acb
  end interface
  interface
    function mk(w) result(s)
      !! explicit interface of a function returning the library's type
      use alib
      integer :: w
      type(shape_t) :: s
    end function mk
  end interface
end module bmod4
"""

B_SRC = """module bmod
  !! B uses the external library
  use {usemod}
  implicit none
  type, extends(shape_t) :: b_t
    !! extends an external type
    integer :: extra
  end type b_t
  type(shape_t) :: holder
  !! variable of external type
contains
  subroutine bsub()
    !! calls external procedures {refs}
    integer :: r
    call asub(1)
    r = afun()
    call agen(2)
  end subroutine bsub
end module bmod
"""
CLASH_SRC = {
    # B's own type / procedure named like A's but written with capitals (another module name: only the entity names clash)
    "caps": "module blocal\n!! B's own entities\ntype Shape_T\n!! B's own Shape_T\ninteger :: c\nend type Shape_T\ncontains\nsubroutine Asub(x)\n!! B's own Asub\ninteger :: x\nend subroutine Asub\nend module blocal\n",
    "module": "module alib\n!! B's own alib\ninteger :: mine\ntype shape_t\n!! B's own shape_t\ninteger :: c\nend type shape_t\ncontains\nsubroutine asub(x)\n!! B's own asub\ninteger :: x\nend subroutine asub\n"
              "integer function afun()\n!! own afun\nafun = 2\nend function afun\nsubroutine agen(i)\n!! own agen\ninteger :: i\nend subroutine agen\nend module alib\n",
}


def stub_urlopen(a_out: Path):
    import ford.external_project as ep
    from urllib.error import URLError

    def urlopen(url, *a, **k):
        u = str(url)
        base = BASE_URL + "/"
        if not u.startswith(base):
            raise URLError(f"unexpected URL {u}")
        p = a_out / u[len(base):]
        if not p.exists():
            raise URLError(f"404 {u}")
        return io.BytesIO(p.read_bytes())

    ep.urlopen = urlopen


def check_export(st: Stats, a_run, stratum, feats, inp):
    """modules.json lists exactly A's modules with exactly their public entities."""
    bad = 0
    mj = a_run.out / "modules.json"
    if not mj.exists():
        st.violation("modules-json-missing", stratum, feats, inp, "no modules.json", "modules.json written with externalize")
        return 1
    data = json.loads(mj.read_text())
    mods = data["modules"] if isinstance(data, dict) else data
    names = sorted(m["name"] for m in mods)
    if names != sorted(A_PUBLIC):
        bad += 1
        st.violation("exported-module-set-wrong", stratum, feats, inp, names, sorted(A_PUBLIC))
    for m in mods:
        for key, want in A_PUBLIC.get(m["name"], {}).items():
            got = set((m.get(key) or {}).keys())
            if got != want:
                bad += 1
                st.violation("exported-entities-wrong", stratum, dict(feats, table=key, extra=",".join(sorted(got - want)), missing=",".join(sorted(want - got))), inp, sorted(got), sorted(want))
        # every exported URL exists in A's output
        site = None
        def urls(d):
            if isinstance(d, dict):
                if "external_url" in d:
                    yield d.get("name"), d["external_url"]
                for v in d.values():
                    yield from urls(v)
            elif isinstance(d, list):
                for v in d:
                    yield from urls(v)
        for name, u in urls(m):
            if not u or u.endswith("None"):
                continue
            rel = u[2:] if u.startswith("./") else u
            f, _, frag = rel.partition("#")
            p = a_run.out / f
            if not p.exists():
                bad += 1
                st.violation("exported-url-missing-in-A", stratum, dict(feats, entity=name), inp, u, "a file of A's documentation")
                break
    return bad


def external_hrefs(site: Site, form, a_out: Path):
    """(page, href) of B's links that leave B's tree towards A."""
    out = []
    for rel, pg in site.pages.items():
        for (tag, attr, url) in pg.links:
            if attr not in ("href", "xlink:href"):
                continue
            if form.startswith("http"):
                if "a.example" in url:
                    out.append((rel, url))
            else:
                u = urllib.parse.urlsplit(url)
                if u.scheme or not u.path:
                    continue
                p = os.path.normpath(os.path.join(os.path.dirname(site.root / rel), urllib.parse.unquote(u.path)))
                if p.startswith(str(a_out.resolve())) or p.startswith(str(a_out)):
                    out.append((rel, p + ("#" + u.fragment if u.fragment else "")))
    return out


def a_target(url, form, a_out: Path):
    """map an href found in B to (file in A's output, fragment) or None."""
    u = urllib.parse.urlsplit(url)
    if form.startswith("http"):
        base = urllib.parse.urlsplit(BASE_URL + "/")
        if u.netloc != base.netloc or not u.path.startswith(base.path):
            return None
        return a_out / u.path[len(base.path):], urllib.parse.unquote(u.fragment)
    p = Path(urllib.parse.unquote(u.path))
    try:
        p.resolve().relative_to(a_out.resolve())
    except ValueError:
        return None
    return p, urllib.parse.unquote(u.fragment)


EXPECT_LINKED = ["alib", "shape_t", "asub", "afun", "agen"]


def run_history(st: Stats, case):
    a_opts1, a_opts2, form, clash, damage, refs, *more = case
    hist = more[0] if more else None  # None | b-twice | rebuild-between | two-names | cwd-parent | cwd-elsewhere
    root = fordrun.new_root()
    stratum = f"form:{form}/clash:{clash or 'none'}/damage:{damage or 'none'}" + (f"/{hist}" if hist else "")
    feats = dict(a_opts=a_opts1, a_rebuild=a_opts2 or "", form=form, clash=clash or "", damage=str(damage) if damage else "", refs=refs, history=hist or "")
    inp = dict(case=[a_opts1, a_opts2, form, clash, damage, refs] + ([hist] if hist else []))
    st.evaluations += 1
    st.nontrivial.add(core.digest(inp))
    AOPT = {"default": {}, "private": dict(display=["public", "private", "protected"]), "nosrc": dict(incl_src=False), "alpha": dict(sort="alpha"), "graph": dict(graph=True),
            "hideundoc": dict(hide_undoc=True)}
    try:
        a_root = root / "A"
        a = fordrun.build(A_SRC, dict(externalize=True, project="alib", **AOPT[a_opts1]), stage="write", root=a_root, keep=True)
        if a_opts2 and hist != "rebuild-between":
            a = fordrun.build(A_SRC, dict(externalize=True, project="alib", **AOPT[a_opts2]), stage="write", root=a_root, keep=True)
        if a.error is not None or a.stage_reached != "write":
            st.violation("ford-failed-on-A", stratum, feats, inp, repr(a.error) + a.log[-200:], "A is built")
            st.stratum(stratum, 1)
            return
        bad = check_export(st, a, stratum, feats, inp)
        a_out = a.out
        mj = a_out / "modules.json"
        original = mj.read_text()
        if damage is not None:
            kind, arg = damage
            if kind == "absent":
                mj.unlink()
            elif kind == "empty":
                mj.write_text("")
            elif kind == "truncate":
                mj.write_text(original[:arg])
            elif kind == "notjson":
                mj.write_text("<html>404 not found</html>")
            elif kind == "wrongshape":
                mj.write_text(json.dumps(arg))
            elif kind == "binary":
                mj.write_bytes(bytes(range(256)) * 2)
        # ---- build B
        if form == "relative":
            ext = "../A/doc"
        elif form == "absolute":
            ext = str(a_out)
        elif form == "http":
            ext = BASE_URL
        else:
            ext = BASE_URL + "/"
        stub_urlopen(a_out)
        reftext = {"none": "", "plain": "see [[alib]] and QR1 [[shape_t]] QE and QR2 [[asub]] QE", "ext": "see [[alib(extmodule)]] and [[shape_t(exttype)]] and [[asub(extproc)]]"}[refs]
        b_files = {"src/bmod.f90": B_SRC.format(usemod="alib", refs=reftext)}
        reftext3 = {"none": "", "plain": "", "ext": "see [[alib3(extmodule)]]"}[refs]
        b_files["src/bmod3.f90"] = B3_SRC.format(refs3=reftext3)
        b_files["src/bmod8.f90"] = B8_SRC
        b_files["src/bmod9.f90"] = B9_SRC
        b_files["src/bdata9.f90"] = ("block data bd9\n  !! block data that keeps an object of the library's type in a common block\n  use alib, only: shape_t\n"
                                     "  type(shape_t) :: origin9\n  !! of the library's type\n  common /geom9/ origin9\nend block data bd9\n")
        if clash:
            b_files["src/own.f90"] = CLASH_SRC[clash]
        externals = {"alib": ext, "alib_again": ext} if hist == "two-names" else {"alib": ext}
        b_opts = dict(external=externals, project="bproj", display=["public", "private", "protected"], **(dict(hide_undoc=True) if hist == "b-hide-undoc" else {}))
        # FORD started from another directory than the project file's: paths in the project file stay relative to the file
        (root / "elsewhere").mkdir(exist_ok=True)
        b_cwd = {"cwd-parent": root, "cwd-elsewhere": root / "elsewhere"}.get(hist)
        if hist in ("b-twice", "rebuild-between"):
            # the same process documents B (or another project using A) before: a first build of B, possibly a rebuild of A, then B again
            b0 = fordrun.build(b_files, b_opts, stage="write", root=root / "B", keep=True)
            st.transitions += 1
            if hist == "rebuild-between":
                a = fordrun.build(A_SRC, dict(externalize=True, project="alib", **AOPT[a_opts2]), stage="write", root=a_root, keep=True)
                a_out = a.out
                bad += check_export(st, a, stratum, feats, inp)
            shutil.rmtree(root / "B" / "doc", ignore_errors=True)
        b = fordrun.build(b_files, b_opts, stage="write", root=root / "B", keep=True, cwd=b_cwd)
        st.transitions += 1
        if b.error is not None or b.stage_reached != "write":
            bad += 1
            st.violation("run-of-B-aborted", stratum, dict(feats, error=type(b.error).__name__ if b.error else "incomplete"), inp,
                         (repr(b.error) + " " + b.log[-200:])[:400], "B completes (a bad external description costs only the links)")
            st.stratum(stratum, bad)
            return
        site = Site(b.out)
        hrefs = external_hrefs(site, form, a_out)
        # B's own pages: what is linked locally
        local_mod = "module/alib.html" in site.pages
        linked_names = set()
        alib_from = {}
        linked_alib = set()  # ... of which entities of the module alib itself (alib3 repeats two of its names)
        seen_problem = set()
        for (page, url) in hrefs:
            t = a_target(url, form, a_out)
            if t is None:
                continue
            f, frag = t
            name = Path(f).stem.split("~")[0]
            linked_names.add(name)
            if page not in ("module/bmod5.html", "type/b5_t.html", "lists/types.html") and Path(f).exists() and (
                    ("alib", name) not in A_MARK or A_MARK[("alib", name)] in Path(f).read_text(errors="replace")):
                linked_alib.add(name)
                alib_from.setdefault(name, set()).add(page)  # (bmod5 reaches the library's alib legitimately, through the external alib4)
            prob = None
            if not Path(f).exists():
                prob = "target does not exist in A's documentation"
            else:
                txt = Path(f).read_text(errors="replace")
                if frag and f'id="{frag}"' not in txt and f"id='{frag}'" not in txt:
                    prob = f"anchor #{frag} missing in A's page"
            if damage is not None:
                prob = None  # what a damaged / foreign description points at is not FORD's responsibility
            if prob and (prob, name) not in seen_problem:
                seen_problem.add((prob, name))
                bad += 1
                st.violation("external-link-does-not-resolve-in-A", stratum, dict(feats, entity=name, problem=prob.split(" ")[0]), inp, dict(page=page, href=url, problem=prob), "a page of A documenting the entity")
        if damage is None:
            # which of A's same-named entities a page of B links to: the one of the module that page's scope uses
            WANT = {"module/bmod7.html": ("alib6", "scale_it"), "module/bmod5.html": ("alib", "shape_t"), "type/b5_t.html": ("alib", "shape_t"), "module/bmod3.html": ("alib3", "shape_t"), "module/bmod.html": ("alib", "shape_t"), "interface/cb.html": ("alib", "shape_t"), "interface/gcb.html": ("alib", "shape_t"),
                    "interface/acb.html": ("alib", "shape_t"), "interface/mk.html": ("alib", "shape_t"), "blockdata/bd9.html": ("alib", "shape_t")}
            if clash == "module":
                WANT = {"module/bmod3.html": ("alib3", "shape_t")}
            got_pages = {}
            for (page, url) in hrefs:
                t = a_target(url, form, a_out)
                if t is None or page not in WANT or Path(t[0]).stem.split("~")[0] != WANT[page][1] or not Path(t[0]).exists():
                    continue
                got_pages.setdefault(page, set()).add(Path(t[0]))
            for page, key in WANT.items():
                if page not in site.pages:
                    continue
                tgts = got_pages.get(page, set())
                wrong = sorted(str(f.relative_to(a_out)) for f in tgts if A_MARK[key] not in f.read_text(errors="replace"))
                if wrong or not tgts:
                    bad += 1
                    st.violation("external-entity-of-wrong-module" if wrong else "external-entity-not-linked", stratum, dict(feats, entity=key[1], page=page, module=key[0]), inp,
                                 dict(page=page, links_to=wrong or "nothing in A"), f"the page of {key[0]}'s {key[1]}")
        if damage is None and hist != "b-hide-undoc":  # (bmod8 documents nothing: hide_undoc prunes its variables and its caller)
            # distinct external entities stay distinct, with or without a page of their own in A
            m8 = [m for m in b.project.modules if m.name == "bmod8"]
            got8 = {v.name: (getattr(v.proto[0], "name", v.proto[0]) or "").lower() if v.proto else None for v in (m8[0].variables if m8 else [])}
            calls8 = sorted((getattr(c, "name", c) or "").lower() for p in (m8[0].subroutines if m8 else []) for c in p.calls)
            want8 = {"x8a": "ua_t", "x8b": "ub_t", "x8c": "uc_t"}
            if got8 != want8 or calls8 != ["ub_sub"]:
                bad += 1
                st.violation("external-entity-of-wrong-module", stratum, dict(feats, entity="alib7", page="module/bmod8.html", module="alib7"), inp,
                             dict(types=got8, calls=calls8), dict(types=want8, calls=["ub_sub"]))
        if damage is None and not clash:
            expect = ["alib", "shape_t"] + (["asub"] if refs != "none" else [])  # calls are only shown in graphs
            missing = [n for n in expect if n not in linked_names]
            if missing:
                bad += 1
                st.violation("external-entity-not-linked", stratum, dict(feats, entity=missing[0]), inp, sorted(linked_names), EXPECT_LINKED)
        if clash == "caps" and refs == "plain":
            # unqualified references resolved project-wide: B's own Shape_T / Asub come before anything external, however they are capitalised
            for rel, pg in site.pages.items():
                if rel.startswith("sourcefile/"):
                    continue  # the verbatim source listing
                for m in re.finditer(r"QR(\d)\s*(.*?)\s*QE", pg.raw, re.S):
                    a = re.search(r"href=['\"]([^'\"]*)['\"]", m.group(2))
                    href = a.group(1) if a else ""
                    want_page = {"1": "type/shape_t.html", "2": "proc/asub.html"}[m.group(1)]
                    target = posixpath.normpath(posixpath.join(posixpath.dirname(rel), href.split("#")[0])) if href and not href.startswith("http") else href
                    if target != want_page:
                        bad += 1
                        st.violation("external-entity-wins-over-local", stratum, dict(feats, entity=want_page.split("/")[1][:-5]), inp,
                                     dict(page=rel, href=href), f"B's own {want_page}")
                        break
        if clash == "module":
            # B's own module alib must win: the Uses link and the type/procedure links stay inside B
            leaked = sorted(n for n in linked_alib if n in ("alib", "shape_t", "asub", "afun", "agen"))
            if leaked or not local_mod:
                bad += 1
                st.violation("external-entity-wins-over-local", stratum, dict(feats, entity=(leaked or ["alib"])[0]), inp, dict(external_links=leaked, local_module_page=local_mod, on_pages=sorted({p for n in leaked for p in alib_from.get(n, ())})[:5]), "B's own entities take precedence")
        if damage is not None and linked_names and damage[0] in ("absent", "empty", "notjson", "binary"):
            bad += 1
            st.violation("links-from-unreadable-description", stratum, feats, inp, sorted(linked_names), "no external links")
        st.states.add(core.digest([sorted(linked_names), local_mod]))
        st.stratum(stratum, bad)
        if len(st.samples) < 2 and hrefs:
            st.sample(dict(case=inp["case"], example_external_links=[list(h) for h in hrefs[:3]]))
    finally:
        shutil.rmtree(root, ignore_errors=True)


# ---- two libraries that use the same entity names; B with and without a project_url of its own ---------------------------
LIB_SRC = """module {m}
  !! module of library {L}
  implicit none
  type config_t
    !! config of {L}
    integer :: c
  end type config_t
contains
  subroutine init(x)
    !! init of {L}
    type(config_t) :: x
  end subroutine init
end module {m}
"""
APP_SRC = """module app{k}
  !! application module {k}: see [[{m}]] and [[{m}(extmodule)]]
  use {m}
  implicit none
  type(config_t) :: cfg{k}
  !! a variable of the library's type
  type, extends(config_t) :: my{k}
    !! extends the library's type
    integer :: extra
  end type my{k}
contains
  subroutine run{k}()
    !! calls the library
    call init(cfg{k})
  end subroutine run{k}
end module app{k}
"""
LIB_URL = {"L1": "http://l1.example/docs", "L2": "http://l2.example/api/v2"}


def run_two_libs(st: Stats, case):
    _, form, order, b_url = case
    root = fordrun.new_root()
    stratum = f"two-libraries/form:{form}"
    feats = dict(a_opts="two-libraries", form=form, order=order, b_project_url=b_url or "", clash="", damage="", refs="ext", history="")
    inp = dict(case=["two-libs", form, order, b_url])
    st.evaluations += 1
    st.nontrivial.add(core.digest(inp))
    try:
        outs = {}
        for L, m in (("L1", "lib1"), ("L2", "lib2")):
            r = fordrun.build({"src/lib.f90": LIB_SRC.format(m=m, L=L)}, dict(externalize=True, project=L), stage="write", root=root / L, keep=True)
            if r.error is not None or r.stage_reached != "write":
                st.violation("ford-failed-on-A", stratum, feats, inp, repr(r.error) + r.log[-200:], "the library is built")
                return
            outs[L] = r.out
        import ford.external_project as ep
        from urllib.error import URLError

        def urlopen(url, *a, **k):
            u = str(url)
            for L, base in LIB_URL.items():
                if u.startswith(base + "/"):
                    p = outs[L] / u[len(base) + 1:]
                    if p.exists():
                        return io.BytesIO(p.read_bytes())
            raise URLError(f"404 {u}")

        ep.urlopen = urlopen
        ext = {}
        for L in (("L1", "L2") if order == "12" else ("L2", "L1")):
            ext[L.lower()] = {"relative": f"../{L}/doc", "absolute": str(outs[L]), "http": LIB_URL[L]}[form]
        b_files = {"src/app1.f90": APP_SRC.format(k=1, m="lib1"), "src/app2.f90": APP_SRC.format(k=2, m="lib2")}
        b_opts = dict(external=ext, project="app", display=["public", "private", "protected"], **(dict(project_url=b_url) if b_url else {}))
        b = fordrun.build(b_files, b_opts, stage="write", root=root / "B", keep=True)
        st.transitions += 1
        if b.error is not None or b.stage_reached != "write":
            st.violation("run-of-B-aborted", stratum, dict(feats, error=type(b.error).__name__ if b.error else "incomplete"), inp, (repr(b.error) + " " + b.log[-200:])[:400], "B completes")
            st.stratum(stratum, 1)
            return
        site = Site(b.out)
        bad = 0
        seen = set()
        for k, L in (("1", "L1"), ("2", "L2")):
            other = "L2" if L == "L1" else "L1"
            linked = set()
            for page in (f"module/app{k}.html", f"type/my{k}.html", f"proc/run{k}.html"):
                pg = site.pages.get(page)
                if pg is None:
                    continue
                for (tag, attr, url) in pg.links:
                    if attr not in ("href", "xlink:href"):
                        continue
                    tgt = None  # (library, path inside its documentation)
                    if form == "http":
                        if "l1.example" in url or "l2.example" in url:
                            tgt = ("?", url)
                            for LL, base in LIB_URL.items():
                                if url.startswith(base + "/"):
                                    tgt = (LL, url[len(base) + 1:])
                    else:
                        u = urllib.parse.urlsplit(url)
                        if not u.scheme and u.path:
                            pth = os.path.normpath(os.path.join(os.path.dirname(site.root / page), urllib.parse.unquote(u.path)))
                            for LL in ("L1", "L2"):
                                if pth.startswith(str(outs[LL].resolve()) + os.sep) or pth.startswith(str(outs[LL]) + os.sep):
                                    tgt = (LL, os.path.relpath(pth, str(outs[LL].resolve()) if pth.startswith(str(outs[LL].resolve())) else str(outs[LL])))
                        elif u.scheme and ("/L1/doc" in url or "/L2/doc" in url):
                            tgt = ("?", url)  # a path into a library wrapped into something that is not a path any more
                    if tgt is None:
                        continue
                    LL, rel = tgt
                    rel = rel.split("#")[0]
                    prob = None
                    if LL == "?":
                        prob = "malformed link into a library"
                    elif LL == other:
                        prob = f"leads into {other}, the scope uses {L}"
                    elif not (outs[LL] / rel).exists():
                        prob = "no such page in the library's documentation"
                    else:
                        linked.add(Path(rel).stem.split("~")[0])
                    if prob and (page, prob) not in seen:
                        seen.add((page, prob))
                        bad += 1
                        st.violation("external-entity-of-wrong-module" if "leads into" in prob else "external-link-does-not-resolve-in-A", stratum,
                                     dict(feats, entity=Path(rel).stem, page=page, problem=prob.split(" ")[0]), inp, dict(page=page, href=url, problem=prob), f"a page of {L} documenting the entity")
            want = {"config_t", "lib" + k}
            if not want <= linked:
                bad += 1
                st.violation("external-entity-not-linked", stratum, dict(feats, entity=sorted(want - linked)[0], page=f"app{k}"), inp, sorted(linked), sorted(want))
        st.states.add(core.digest([form, order, bool(b_url), bad]))
        st.stratum(stratum, bad)
    finally:
        shutil.rmtree(root, ignore_errors=True)


# ---- a chain of three projects: C is external to A, A is external to B ------------------------------------------------------
CHAIN_C = """module clib
  !! module of the innermost library
  implicit none
  type c_t
    !! type of C
    integer :: cc
  end type c_t
contains
  subroutine c_sub()
    !! procedure of C
  end subroutine c_sub
end module clib
"""
CHAIN_A = """module amid
  !! module of the middle library{reexport}
  use clib
  implicit none
  {private}
  type{ext} :: a_ext
    !! type of A
    integer :: own_a
  end type a_ext
  type a_plain
    !! another type of A
    integer :: p
  end type a_plain
contains
  subroutine a_sub2()
    !! procedure of A
    call c_sub()
  end subroutine a_sub2
end module amid
module zmod
  !! a later module of the middle library
  implicit none
  type z_t
    !! type of zmod
    integer :: z
  end type z_t
end module zmod
"""
CHAIN_B = """module btop
  !! application: see [[amid]] and [[a_ext]] and [[zmod]]
  use amid
  use zmod
  implicit none
  type(a_ext) :: v1
  !! of A's extended type
  type(a_plain) :: v2
  !! of A's plain type
  type(z_t) :: v3
  !! of zmod's type
contains
  subroutine b_run()
    !! calls A
    call a_sub2()
  end subroutine b_run
end module btop
"""


def run_chain(st: Stats, case):
    """A documents C's entities as external ones and is itself externalized: what A took from C does not spoil A's
    description for B.  Variants: A re-exports C's module (default public) or keeps it private; A's type extends C's or not."""
    _, reexport, extends = case
    root = fordrun.new_root()
    stratum = "chain-of-three"
    feats = dict(a_opts="chain", form="relative", clash="", damage="", refs="plain", history="", reexport=reexport, extends=extends)
    inp = dict(case=["chain", reexport, extends])
    st.evaluations += 1
    st.nontrivial.add(core.digest(inp))
    try:
        c = fordrun.build({"src/clib.f90": CHAIN_C}, dict(externalize=True, project="clib"), stage="write", root=root / "C", keep=True)
        a_src = CHAIN_A.format(reexport=" (re-exports clib)" if reexport else "", private="" if reexport else "private :: c_t, c_sub",
                               ext=", extends(c_t)" if extends else "")
        a = fordrun.build({"src/amid.f90": a_src}, dict(externalize=True, project="amid", external={"clib": "../C/doc"}), stage="write", root=root / "A", keep=True)
        st.transitions += 2
        if c.error is not None or a.error is not None or a.stage_reached != "write":
            st.violation("ford-failed-on-A", stratum, feats, inp, repr(c.error) + repr(a.error) + a.log[-200:], "the libraries are built")
            st.stratum(stratum, 1)
            return
        b = fordrun.build({"src/btop.f90": CHAIN_B}, dict(external={"amid": "../A/doc"}, project="btop", display=["public", "private", "protected"]), stage="write", root=root / "B", keep=True)
        st.transitions += 1
        if b.error is not None or b.stage_reached != "write":
            st.violation("run-of-B-aborted", stratum, dict(feats, error=type(b.error).__name__ if b.error else "incomplete"), inp, (repr(b.error) + " " + b.log[-200:])[:400], "B completes")
            st.stratum(stratum, 1)
            return
        bad = 0
        if "Could not" in b.log and "description" in b.log:
            bad += 1
            st.violation("external-description-rejected", stratum, feats, inp, [l for l in b.log.split("\n") if "Could not" in l][:2], "A's own modules.json is understood")
        site = Site(b.out)
        a_out = a.out.resolve()
        linked = set()
        for page, pg in site.pages.items():
            for (tag, attr, url) in pg.links:
                u = urllib.parse.urlsplit(url)
                if attr != "href" or u.scheme or not u.path:
                    continue
                pth = os.path.normpath(os.path.join(os.path.dirname(site.root.resolve() / page), urllib.parse.unquote(u.path)))
                if pth.startswith(str(a_out) + os.sep) and os.path.exists(pth):
                    linked.add(Path(pth).stem)
        want = {"amid", "a_ext", "a_plain", "zmod", "z_t"}
        if not want <= linked:
            bad += 1
            st.violation("external-entity-not-linked", stratum, dict(feats, entity=sorted(want - linked)[0]), inp, sorted(linked), sorted(want))
        st.states.add(core.digest([reexport, extends, sorted(linked)]))
        st.stratum(stratum, bad)
    finally:
        shutil.rmtree(root, ignore_errors=True)


def work(chunk):
    st = Stats()
    for case in chunk:
        if case[0] == "two-libs":
            run_two_libs(st, case)
        elif case[0] == "chain":
            run_chain(st, case)
        else:
            run_history(st, case)
    return st


_BOUNDARIES = {}


def truncation_points():
    """offsets just after every structural character of a real modules.json."""
    if "b" not in _BOUNDARIES:
        root = fordrun.new_root()
        a = fordrun.build(A_SRC, dict(externalize=True, project="alib"), stage="write", root=root, keep=True)
        text = (a.out / "modules.json").read_text()
        shutil.rmtree(root, ignore_errors=True)
        _BOUNDARIES["b"] = [i + 1 for i, c in enumerate(text) if c in "{}[],:"]
    return _BOUNDARIES["b"]


def gen_cases(tier):
    for form in ("relative", "absolute", "http"):
        for order in ("12", "21"):
            for b_url in (None, "https://b.example.org/docs"):
                yield ("two-libs", form, order, b_url)
    for reexport in (True, False):
        for extends in (True, False):
            yield ("chain", reexport, extends)
    forms = ["relative", "absolute", "http", "http-slash"]
    for a1 in ("default", "private", "nosrc", "alpha", "hideundoc"):
        for form in forms:
            for refs in ("none", "plain", "ext"):
                yield (a1, None, form, None, None, refs)
    for a1, a2 in (("default", "private"), ("private", "default"), ("nosrc", "default"), ("default", "alpha"), ("graph", "default")):
        for form in ("relative", "http"):
            yield (a1, a2, form, None, None, "none")
    for form in forms:
        yield ("default", None, form, "module", None, "none")
        yield ("private", None, form, "module", None, "none")
        yield ("default", None, form, "caps", None, "plain")
    # longer histories in one process, the same external under two names, FORD started from another directory
    for form in forms:
        for refs in ("none", "plain"):
            yield ("default", None, form, None, None, refs, "b-twice")
            yield ("default", None, form, None, None, refs, "two-names")
            yield ("default", None, form, None, None, refs, "b-hide-undoc")
            yield ("default", None, form, None, None, refs, "cwd-parent")
            yield ("default", None, form, None, None, refs, "cwd-elsewhere")
            for a1, a2 in (("default", "private"), ("private", "default"), ("nosrc", "alpha")):
                yield (a1, a2, form, None, None, refs, "rebuild-between")
    damages = [("absent", None), ("empty", None), ("notjson", None), ("wrongshape", {}), ("wrongshape", []), ("wrongshape", {"modules": "x"}),
               # not text at all; JSON values that are no collection; the metadata without the module list; tables given as lists
               ("binary", None), ("wrongshape", None), ("wrongshape", 42), ("wrongshape", "modules"), ("wrongshape", {"ford-metadata": {}}),
               ("wrongshape", {"ford-metadata": {}, "modules": [{"name": "alib", "external_url": "./module/alib.html", "obj": "module", "pub_procs": [], "pub_types": ["shape_t"], "pub_vars": None, "pub_absints": {}}]}),
               ("wrongshape", {"ford-metadata": {}, "modules": [{"name": None, "external_url": None, "obj": "module", "pub_procs": {}, "pub_types": {}, "pub_vars": {}, "pub_absints": {}}]}),
               ("wrongshape", {"modules": [{"name": "alib"}]}), ("wrongshape", [1, 2, 3]), ("wrongshape", {"ford-metadata": {}, "modules": [None]}),
               # a description written by hand / another tool: flat URLs without any "/", empty URLs, URLs with a query
               ("wrongshape", {"ford-metadata": {"version": "7"}, "modules": [{"name": "alib", "external_url": "alib.html", "obj": "module", "pub_procs": {"asub": {"name": "asub", "external_url": "asub.html", "obj": "proc", "proctype": "Subroutine"}},
                                            "pub_types": {}, "pub_vars": {}, "pub_absints": {}}]}),
               ("wrongshape", {"ford-metadata": {"version": "7"}, "modules": [{"name": "alib", "external_url": "", "obj": "module", "pub_procs": {}, "pub_types": {}, "pub_vars": {}, "pub_absints": {}}]})]
    pts = truncation_points()
    step = 1 if tier == "thorough" else max(1, len(pts) // 60)
    damages += [("truncate", p) for p in pts[::step]]
    for d in damages:
        for form in ("relative", "http") if tier == "quick" else forms:
            yield ("default", None, form, None, d, "none")


def replay(path):
    core.use_repo()
    rec = json.loads(open(path).read())

    def tup(x):
        return tuple(tup(y) for y in x) if isinstance(x, list) else x

    st = Stats()
    c = rec["input"]["case"]
    if c[0] == "two-libs":
        run_two_libs(st, tuple(c))
    elif c[0] == "chain":
        run_chain(st, tuple(c))
    else:
        run_history(st, (c[0], c[1], c[2], c[3], tuple(c[4]) if c[4] else None, c[5]) + tuple(c[6:]))
    for v in st.violations:
        print("REPRODUCED", v["clause"], v["observed"])
    return 1 if st.violations else 0


def main(tier, replay_path=None):
    if replay_path:
        return replay(replay_path)
    t0 = time.time()
    core.use_repo()
    cases = list(gen_cases(tier))
    k = core.SEED % 41
    cases = cases[k:] + cases[:k]
    n = core.WORKERS * 4
    total = Stats()
    for st in core.pmap(work, [c for c in (cases[i::n] for i in range(n)) if c]):
        total.merge(st)
    return core.finish(
        PROP, tier, "model_checking", total, t0,
        rule=("histories build A(opts1) [rebuild A(opts2)] [damage modules.json] [build B] [rebuild A] build B (also: the external listed under two names; FORD started from the parent / an unrelated directory): 4 option sets of A x 4 forms of the external (relative path, absolute path, http URL "
              "without / with trailing slash) x [[...]] reference styles; 5 rebuild pairs; module-level name clash x forms; modules.json absent / empty / not JSON / 6 wrong shapes / "
              + ("truncated after EVERY structural character" if tier == "thorough" else "truncated at ~60 structural boundaries") +
              "; two libraries using the same entity names x 3 forms x listing order x B with / without a project_url of its own. transitions = builds of B; states = distinct sets of externally linked entities"),
        assumptions=[
            "remote access is stubbed: urlopen serves A's output directory under http://a.example/docs/alib/",
            "an external link 'documents the entity' when the target file (and anchor) exists in A's output and the file stem is the entity's name",
        ],
        bounds=dict(cases=len(cases)),
    )
