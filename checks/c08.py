"""C08 - recorded calls are exactly the user procedures a unit invokes.

Executable parts are generated from a statement grammar (assignment, CALL, IF,
IF/ELSE IF, WHERE, DO WHILE, SELECT CASE, ASSOCIATE (nested / shadowing), BLOCK,
I/O statements, ALLOCATE, FORMAT, computed GOTO, labelled / continued / `;`-joined
variants) over an expression alphabet (user function, generic, type-bound,
component array, local array, module array, intrinsic, user function whose name
contains an intrinsic name, literals containing call-like text, external
function), nested to depth 2, in 4 kinds of calling unit.  The expected call set
is read off the abstract statement (never from text) and compared with
unit.calls after the real correlate().
"""
from __future__ import annotations

import itertools
import re
import time

from mc import core, fordrun
from mc.core import Stats

PROP = "C08"

# expression atoms: (text with {a} = inner argument, set of called procedures, takes an argument?)
ATOMS = {
    "var": ("x", set()),
    "ufn": ("ufn({a})", {"ufn"}),
    "ufn2": ("ufn2({a})", {"ufn2"}),
    "gen": ("gen({a})", {"gen"}),
    "larr": ("larr({a})", set()),
    "marr": ("marr({a})", set()),
    "intrinsic": ("abs({a})", set()),
    "intrinsic2": ("max({a}, 2)", set()),
    "sum2": ("sum2({a})", {"sum2"}),
    "my_abs": ("my_abs({a})", {"my_abs"}),
    "extfn": ("extfn({a})", {"extfn"}),
    "comp": ("obj%comp({a})", set()),
    "tbp": ("obj%tbp({a})", {"tbp"}),
    "lit1": ("len('call usub(x)') + {a}", set()),
    "lit2": ('len("ufn2(1) ! g(2)") + {a}', set()),
    "upper": ("UFN({a})", {"ufn"}),
    "spaced": ("ufn ( {a} )", {"ufn"}),
    "noargfn": ("ufn0()", {"ufn0"}),
    # references inside grouping parentheses (a parenthesis level that holds no `name(` of its own)
    "grouped": ("2 * (ufn({a}) + 1)", {"ufn"}),
    "grouped2": ("((ufn2({a})))", {"ufn2"}),
    "grouped-arr": ("(larr({a}) + (marr(1)))", set()),
}
WRAPPERS = ["ufn", "larr", "intrinsic", "gen", "comp"]


def exprs(depth):
    """[(text, calls, label)]"""
    out = []
    for k, (t, c) in ATOMS.items():
        out.append((t.replace("{a}", "i"), set(c), k))
    if depth >= 2:
        for w in WRAPPERS:
            wt, wc = ATOMS[w]
            for k, (t, c) in ATOMS.items():
                if k in ("var",):
                    continue
                inner = t.replace("{a}", "i")
                out.append((wt.replace("{a}", inner), set(wc) | set(c), f"{w}({k})"))
    return out


# statement templates: (name, lines with {e}/{f} expression slots, calls made by the statement itself)
STMTS = [
    ("assign", ["r = {e}"], set()),
    ("assign2", ["r = {e} + {f}"], set()),
    ("call-arg", ["call usub({e})"], {"usub"}),
    ("call-2args", ["call usub2({e}, {f})"], {"usub2"}),
    ("call-noparen", ["call usub0"], {"usub0"}),
    ("call-empty", ["call usub0()"], {"usub0"}),
    ("call-upper", ["CALL USUB({e})"], {"usub"}),
    ("if-assign", ["if ({e} > 0) r = {f}"], set()),
    ("if-call", ["if ({e} > 0) call usub({f})"], {"usub"}),
    ("if-call-noparen", ["if ({e} > 0) call usub0"], {"usub0"}),
    ("ifthen", ["if ({e} > 0) then", "  r = 1", "else if ({f} > 0) then", "  r = 2", "end if"], set()),
    ("where", ["where (larr > {e}) larr = {f}"], set()),
    ("dowhile", ["do while ({e} > 0)", "  r = r - 1", "end do"], set()),
    ("select", ["select case ({e})", "case (1)", "  r = {f}", "end select"], set()),
    ("associate", ["associate (aa => {e})", "  r = aa + {f}", "end associate"], set()),
    ("associate-shadow", ["associate (ufn2 => larr)", "  r = ufn2(1) + {e}", "end associate"], set()),
    # the selector is an expression: an element of its value is no call
    ("associate-expr", ["associate (av => larr + marr, aw => 2*larr)", "  r = av(1) + aw(2) + {e}", "end associate"], set()),
    ("associate-expr-nested", ["associate (av => larr + {e})", "  associate (ax => av)", "    r = ax(2) + {f}", "  end associate", "end associate"], set()),
    ("associate-nested", ["associate (aa => {e})", "  associate (bb => aa)", "    r = bb", "  end associate", "  r = {f}", "end associate"], set()),
    ("associate-upper", ["associate (AA => {e}, Q => larr)", "  r = aa + q(2) + {f}", "end associate"], set()),
    ("associate-shadow-upper", ["associate (UFN2 => larr)", "  r = ufn2(1) + {e}", "end associate"], set()),
    ("associate-shadow-mixed", ["Associate (Ufn2 => larr)", "  r = UFN2(1) + {e}", "End Associate"], set()),
    ("associate-tbp", ["associate (ob => obj)", "  r = ob%tbp({e})", "end associate"], {"tbp"}),
    ("associate-tbp-upper", ["associate (OB => obj)", "  r = ob%tbp({e}) + ob%comp(1)", "end associate"], {"tbp"}),
    ("implied-do", ["print *, ({e}, i = 1, 3)"], set()),
    ("if-grouped", ["if (({e}) > 0) r = ({f})"], set()),
    ("call-grouped", ["call usub(2 * ({e} + 1))"], {"usub"}),
    ("block", ["block", "  integer :: bl", "  bl = {e}", "end block"], set()),
    # entities local to a BLOCK construct: arrays, a nested block, a type defined inside
    ("block-array", ["block", "  integer :: blarr(3), blb", "  real, dimension(2) :: blc", "  blarr(1) = {e}", "  r = blarr(2) + int(blc(1))", "end block"], set()),
    ("block-nested", ["block", "  integer :: blo(2)", "  block", "    integer :: bli(2)", "    bli(1) = blo(1) + {e}", "  end block", "  r = blo(2)", "end block"], set()),
    ("block-type", ["block", "  type btype", "    integer :: bq(2)", "  end type btype", "  type(btype) :: bv", "  bv%bq(1) = {e}", "  r = bv%bq(2)", "end block"], set()),
    ("print", ["print *, {e}, {f}"], set()),
    ("write", ["write(*,*) {e}"], set()),
    ("write-fmt", ["write(s, '(i0)') {e}"], set()),
    ("read", ["read(*,*) larr({e})"], set()),
    ("allocate", ["allocate(parr({e}))"], set()),
    ("format", ["100 format (i5, 'ufn(1)')", "r = {e}"], set()),
    ("format-noblank", ["100 format(i5, 3x)", "r = {e}"], set()),
    ("format-groups", ["100 format(3(i5), 2(1x, a))", "110 format (2(i5, 3(f8.2)))", "r = {e}"], set()),
    ("format-groups-upper", ["100 FORMAT(3(I5))", "r = {e}"], set()),
    ("goto-computed", ["go to (10, 20) i", "10 r = {e}", "20 continue"], set()),
    ("goto-computed2", ["goto (10, 20), i", "10 r = {e}", "20 continue"], set()),
    ("if-goto-computed", ["if ({e} > 0) go to (10, 20) i", "10 continue", "20 continue"], set()),
    ("labelled-call", ["10 call usub({e})"], {"usub"}),
    ("labelled-call-noparen", ["10 call usub0"], {"usub0"}),
    ("labelled-assign", ["10 r = {e}"], set()),
    ("continued", ["r = {e} + &", "    {f}"], set()),
    ("continued-inside", ["call usub2({e}, &", "    & {f})"], {"usub2"}),
    ("semicolon", ["r = {e}; call usub({f})"], {"usub"}),
    ("twice", ["r = {e}", "r = r + {e}"], set()),
    # bindings of the same name on two types are two procedures; the same binding through two objects is one
    ("tbp-two-types", ["r = obj%tbp({e}) + obj2%tbp({f})"], {"tbp", "uu%tbp"}),
    ("tbp-two-types-call-order", ["r = obj2%tbp({e})", "r = r + obj%tbp({f})"], {"tbp", "uu%tbp"}),
    ("tbp-two-objects", ["r = obj%tbp({e}) + obj1b%tbp({f})"], {"tbp"}),
    ("keyword-like", ["if_count = {e}", "call_total = {f}"], set()),
    ("two-literals", ["print *, 'usage: call usub2(n, m) prints the value', 'e.g. ufn2(1)', {e}"], set()),
    ("two-literals2", ["s = \"a long literal, with my_abs(1)\" // 'x = sum2(3)' // '' // 'gen(2)'", "r = {e}"], set()),
    ("string-only", ["s = 'r = ufn2(3); call usub0'", "r = {e}"], set()),
]

CALLERS = ["subroutine", "function", "program", "modproc", "nestedsub"]  # nestedsub: a procedure of a submodule of a submodule

DECLS = [
    "integer :: larr(5), i, r, x, if_count, call_total",
    "integer, allocatable :: parr(:)",
    "type(tt) :: obj, obj1b",
    "type(uu) :: obj2",
    "character(20) :: s",
    "integer, external :: extfn",
]
LIB = """  integer :: marr(5)
  type tt
    integer :: comp(3)
  contains
    procedure :: tbp => tbp_impl
  end type tt
  type uu
    integer :: ucomp(3)
  contains
    procedure :: tbp => tbp_impl_u
  end type uu
  interface gen
    module procedure gen_i
  end interface gen
"""
LIBPROCS = """  integer function ufn(a)
    integer :: a
    ufn = a
  end function ufn
  integer function ufn0()
    ufn0 = 1
  end function ufn0
  integer function ufn2(a)
    integer :: a
    ufn2 = a
  end function ufn2
  integer function sum2(a)
    integer :: a
    sum2 = a
  end function sum2
  integer function my_abs(a)
    integer :: a
    my_abs = a
  end function my_abs
  integer function gen_i(a)
    integer :: a
    gen_i = a
  end function gen_i
  integer function tbp_impl_u(self, a)
    class(uu) :: self
    integer :: a
    tbp_impl_u = a
  end function tbp_impl_u
  integer function tbp_impl(self, a)
    class(tt) :: self
    integer :: a
    tbp_impl = a
  end function tbp_impl
  subroutine usub(a)
    integer :: a
  end subroutine usub
  subroutine usub2(a, b)
    integer :: a, b
  end subroutine usub2
  subroutine usub0()
  end subroutine usub0
"""


def program_text(caller, body_lines):
    body = "\n".join("    " + l for l in DECLS + body_lines) + "\n"
    if caller == "subroutine":
        return f"module cm\n  implicit none\n{LIB}contains\n{LIBPROCS}  subroutine caller()\n{body}  end subroutine caller\nend module cm\n"
    if caller == "function":
        return f"module cm\n  implicit none\n{LIB}contains\n{LIBPROCS}  integer function caller()\n{body}    caller = r\n  end function caller\nend module cm\n"
    if caller == "program":
        return (f"module cm\n  implicit none\n{LIB}contains\n{LIBPROCS}end module cm\n"
                f"program caller\n  use cm\n  implicit none\n{body}end program caller\n")
    if caller == "nestedsub":
        return (f"module cm\n  implicit none\n{LIB}contains\n{LIBPROCS}end module cm\n"
                f"submodule (cm) cs1\n  implicit none\n  integer :: sarr(5)\nend submodule cs1\n"
                f"submodule (cm:cs1) cs2\n  implicit none\ncontains\n  subroutine caller()\n{body}  end subroutine caller\nend submodule cs2\n")
    if caller == "modproc":
        return (f"module cm\n  implicit none\n{LIB}  interface\n    module subroutine caller()\n    end subroutine caller\n  end interface\ncontains\n{LIBPROCS}end module cm\n"
                f"submodule (cm) cs\n  implicit none\ncontains\n  module procedure caller\n{body}  end procedure caller\nend submodule cs\n")


def find_caller(project, caller):
    if caller == "program":
        return project.programs[0]
    if caller == "nestedsub":
        sm = [x for x in project.submodules if x.name == "cs2"][0]
        return [p for p in sm.subroutines if p.name == "caller"][0]
    if caller == "modproc":
        sm = project.submodules[0]
        for coll in ("modprocedures", "modsubroutines", "subroutines"):
            for p in getattr(sm, coll, []):
                if p.name == "caller":
                    return p
        raise LookupError("module procedure implementation not found")
    m = project.modules[0]
    return [p for p in list(m.subroutines) + list(m.functions) if p.name == "caller"][0]


def callname(c):
    n = getattr(c, "name", c)
    n = (n or "").lower()
    par = getattr(c, "parent", None)
    if type(c).__name__ == "FortranBoundProcedure" and getattr(par, "name", "").lower() != "tt":
        return f"{par.name.lower()}%{n}"  # (bindings of tt keep their bare name in the expectations)
    return {"tbp_impl": "tbp", "gen_i": "gen"}.get(n, n) if False else n


def run_case(st: Stats, case):
    caller, stmts = case  # stmts: [(stmt name, e label, f label)]
    E = {lab: (t, c) for (t, c, lab) in exprs(2)}
    body, want = [], set()
    goto_calls = set()
    for (sname, el, fl) in stmts:
        _, lines, own = next(s for s in STMTS if s[0] == sname)
        et, ec = E[el]
        ft, fc = E[fl]
        used_f = any("{f}" in l for l in lines)
        used_e = any("{e}" in l for l in lines)
        body += [l.replace("{e}", et).replace("{f}", ft) for l in lines]
        want |= set(own) | (ec if used_e else set()) | (fc if used_f else set())
        if sname == "if-goto-computed":
            goto_calls |= ec
        if sname.startswith("associate-shadow"):
            want.discard("ufn2")  # inside the construct ufn2 is the associate name of an array
    src = program_text(caller, body)
    r = fordrun.build_fast({"src/m.f90": src}, dict(display=["public", "private", "protected"], proc_internals=True))
    st.evaluations += 1
    st.transitions += 1
    stratum = f"{caller}/{'+'.join(s[0] for s in stmts)}"
    inp = dict(case=[caller, [list(s) for s in stmts]], body=body, source=src)
    feats = dict(caller=caller, stmts="+".join(s[0] for s in stmts), exprs="+".join(f"{s[1]}|{s[2]}" for s in stmts))
    if r.error is not None or "ERROR in file" in r.log or "Error parsing" in r.log:
        st.violation("ford-failed", stratum, feats, inp, repr(r.error) + r.log[-300:], "parses and correlates")
        st.stratum(caller, 1)
        return
    try:
        unit = find_caller(r.project, caller)
    except Exception as e:  # noqa
        st.violation("caller-missing", stratum, feats, inp, repr(e), "calling unit present")
        st.stratum(caller, 1)
        return
    got_list = [callname(c) for c in unit.calls]
    got = set(got_list)
    st.states.add(core.digest([caller, stmts, sorted(got_list)]))
    st.nontrivial.add(core.digest([caller, stmts]))
    bad = False
    dup = sorted(n for n in got if got_list.count(n) > 1)
    if dup:
        bad = True
        st.violation("recorded-more-than-once", stratum, dict(feats, names=",".join(dup)), inp, got_list, sorted(want))
    extra, missing = sorted(got - want), sorted(want - got)
    if extra:
        bad = True
        st.violation("spurious-call", stratum, dict(feats, names=",".join(extra)), inp, sorted(got), sorted(want))
    if missing:
        bad = True
        st.violation("missing-call", stratum, dict(feats, names=",".join(missing), only_in_if_goto_condition=bool(goto_calls) and set(missing) <= goto_calls),
                     inp, sorted(got), sorted(want))
    # resolution: user procedures defined in the project must be resolved objects (not strings)
    unresolved = sorted(str(c).lower() for c in unit.calls if isinstance(c, str) and c.lower() in want and c.lower() != "extfn")
    if unresolved and not missing:
        bad = True
        st.violation("call-not-resolved", stratum, dict(feats, names=",".join(unresolved)), inp, unresolved, "resolved procedure objects")
    st.stratum(caller, 1 if bad else 0)
    if len(st.samples) < 2 and len(body) > 1:
        st.sample(dict(caller=caller, body=body, expected_calls=sorted(want)))


# ---- the standard intrinsic procedures (independent list: Fortran 2008 / 2018, 16.7 and 16.9) ----------------------
INTRINSIC_FUNCTIONS = """abs achar acos acosh adjustl adjustr aimag aint all allocated anint any asin asinh associated atan atan2 atanh
bessel_j0 bessel_j1 bessel_jn bessel_y0 bessel_y1 bessel_yn bge bgt ble blt bit_size btest ceiling char cmplx command_argument_count conjg cos cosh
count cshift dble digits dim dot_product dprod dshiftl dshiftr eoshift epsilon erf erfc erfc_scaled exp exponent extends_type_of findloc floor
fraction gamma huge hypot iachar iall iand iany ibclr ibits ibset ichar ieor image_index index int ior iparity is_contiguous is_iostat_end
is_iostat_eor ishft ishftc kind lbound lcobound leadz len len_trim lge lgt lle llt log log_gamma log10 logical maskl maskr matmul max maxexponent
maxloc maxval merge merge_bits min minexponent minloc minval mod modulo nearest new_line nint norm2 not null num_images pack parity popcnt poppar
precision present product radix range real repeat reshape rrspacing same_type_as scale scan selected_char_kind selected_int_kind
selected_real_kind set_exponent shape shifta shiftl shiftr sign sin sinh size spacing spread sqrt storage_size sum tan tanh this_image tiny
trailz transfer transpose trim ubound ucobound unpack verify""".split()
INTRINSIC_SUBROUTINES = """cpu_time date_and_time execute_command_line get_command get_command_argument get_environment_variable move_alloc mvbits
random_number random_seed system_clock atomic_define atomic_ref""".split()


def run_intrinsic(st: Stats, case):
    _, caller, name, is_sub = case
    if is_sub:
        body = [f"call {name}(x)", f"if (x > 0) call {name.upper()}(x)", f"call usub(x); call {name} (x)"]
        want = {"usub"}
    else:
        body = [f"r = {name}(x)", f"if ({name.upper()}(x) > 0) r = ufn({name}(x))", f"call usub({name} (x))"]
        want = {"ufn", "usub"}
    src = program_text(caller, body)
    r = fordrun.build_fast({"src/m.f90": src}, dict(display=["public", "private", "protected"], proc_internals=True))
    st.evaluations += 1
    st.transitions += 1
    stratum = f"{caller}/intrinsic-" + ("subroutine" if is_sub else "function")
    inp = dict(case=list(case), body=body, source=src)
    feats = dict(caller=caller, stmts="intrinsic", exprs=name, names=name)
    st.nontrivial.add(core.digest(case))
    if r.error is not None or "ERROR in file" in r.log or "Error parsing" in r.log:
        st.violation("ford-failed", stratum, feats, inp, repr(r.error) + r.log[-300:], "parses and correlates")
        st.stratum(caller, 1)
        return
    unit = find_caller(r.project, caller)
    got = {callname(c) for c in unit.calls}
    st.states.add(core.digest([caller, name, sorted(got)]))
    if got != want:
        st.violation("spurious-call" if got - want else "missing-call", stratum, dict(feats, names=",".join(sorted(got ^ want))), inp, sorted(got), sorted(want))
        st.stratum(caller, 1)
    else:
        st.stratum(caller, 0)


# ---- fixed source form: a statement continued over two or three lines, other lines in between ------------------------------
FIXED_STMTS = [
    # (name, declaration statements, executable statement, calls)
    ("call-nested", [], "call usub2(ufn(1), ufn2(larr(2)))", {"usub2", "ufn", "ufn2"}),
    ("assign", [], "r = ufn(larr(1)) + sum2(3) * marr(2)", {"ufn", "sum2"}),
    ("decl-arrays", ["integer barr(10), carr(20), darr(3)"], "r = barr(1) + carr(2) + darr(3)", set()),
    ("if-call", [], "if (ufn(1) .gt. 0) call usub(ufn2(2))", {"usub", "ufn", "ufn2"}),
    ("print-literal", [], "print *, 'call usub0', ufn(1), 'sum2(2)'", {"ufn"}),
]
FIXED_FILLERS = {"none": [], "c": ["c     a comment line"], "C": ["C"], "star": ["* call usub0()"], "bang": ["!     r = sum2(1)"], "bang-indented": ["      ! my_abs(1)"], "blank": [""],
                 "two": ["c first", "", "* second"], "doc": ["!! call usub0()"]}
FIXED_MARKS = ["&", "1", "+", "$"]


def fixed_breaks(stmt):
    """token boundaries of a statement outside character literals."""
    out, inq = [], False
    for m in re.finditer(r"'[^']*'|\w+|\.\w+\.|\S", stmt):
        out.append(m.start())
    return [b for b in out if b > 0]


def fixed_lines(stmt, breaks, filler, mark):
    parts, last = [], 0
    for b in breaks:
        parts.append(stmt[last:b])
        last = b
    parts.append(stmt[last:])
    L = ["      " + parts[0].rstrip()]
    for p in parts[1:]:
        L += FIXED_FILLERS[filler]
        L.append("     " + mark + p.rstrip())
    return L


def run_fixed(st: Stats, case):
    _, sname, which, breaks, filler, mark = case
    _, decls, stmt, want = next(x for x in FIXED_STMTS if x[0] == sname)
    dl = []
    for d in decls:
        dl += fixed_lines(d, breaks if which == "decl" else [], filler, mark)
    xl = fixed_lines(stmt, breaks if which == "exec" else [], filler, mark)
    src = ["      subroutine caller()", "      use cm", "      implicit none", "      integer larr(5), i, r, x"] + dl + xl + ["      end subroutine caller"]
    files = {"src/m.f90": f"module cm\n  implicit none\n{LIB}contains\n{LIBPROCS}end module cm\n", "src/caller.f": "\n".join(src) + "\n"}
    r = fordrun.build_fast(files, dict(display=["public", "private", "protected"], proc_internals=True))
    st.evaluations += 1
    st.transitions += 1
    stratum = f"fixed-form/{sname}"
    inp = dict(case=list(case), files=files)
    feats = dict(caller="fixed-form", stmts=sname, filler=filler, mark=mark, nbreaks=len(breaks), which=which)
    st.nontrivial.add(core.digest(list(case)))
    if r.error is not None or "ERROR in file" in r.log or "Error parsing" in r.log:
        st.violation("ford-failed", stratum, feats, inp, repr(r.error) + r.log[-300:], "parses and correlates")
        st.stratum("fixed-form", 1)
        return
    unit = [p for p in r.project.procedures if p.name == "caller"]
    if not unit:
        st.violation("caller-missing", stratum, feats, inp, "no caller", "calling unit present")
        st.stratum("fixed-form", 1)
        return
    got_list = [callname(c) for c in unit[0].calls]
    got = set(got_list)
    st.states.add(core.digest([sname, which, breaks, filler, sorted(got_list)]))
    bad = False
    extra, missing = sorted(got - want), sorted(want - got)
    if extra:
        bad = True
        st.violation("spurious-call", stratum, dict(feats, names=",".join(extra)), inp, sorted(got), sorted(want))
    if missing:
        bad = True
        st.violation("missing-call", stratum, dict(feats, names=",".join(missing)), inp, sorted(got), sorted(want))
    if sorted(n for n in got if got_list.count(n) > 1):
        bad = True
        st.violation("recorded-more-than-once", stratum, feats, inp, got_list, sorted(want))
    st.stratum("fixed-form", 1 if bad else 0)


def gen_fixed_cases(tier):
    for (sname, decls, stmt, _) in FIXED_STMTS:
        for which, text in ([("decl", decls[0])] if decls else []) + [("exec", stmt)]:
            bs = fixed_breaks(text)
            for filler in FIXED_FILLERS:
                for mark in FIXED_MARKS if tier == "thorough" else ["&", "1"]:
                    for b in bs:
                        yield ("fixed", sname, which, (b,), filler, mark)
                    pairs = list(itertools.combinations(bs, 2))
                    for pr in pairs if tier == "thorough" else pairs[::7]:
                        yield ("fixed", sname, which, pr, filler, mark)


def gen_cases(tier):
    yield from gen_fixed_cases(tier)
    for caller in ("subroutine", "program") if tier == "quick" else CALLERS:
        for n in INTRINSIC_FUNCTIONS:
            yield ("intrinsic", caller, n, False)
        for n in INTRINSIC_SUBROUTINES:
            yield ("intrinsic", caller, n, True)
    yield from gen_stmt_cases(tier)


def gen_stmt_cases(tier):
    e1 = [lab for (_, _, lab) in exprs(1)]
    e2 = [lab for (_, _, lab) in exprs(2)]
    names = [s[0] for s in STMTS]
    for caller in CALLERS:
        for s in names:
            for e in e1:
                yield (caller, ((s, e, "var"),))
            for f in e1:
                yield (caller, ((s, "var", f),))
    for s in names:
        for e in e2:
            if e not in e1:
                yield ("subroutine", ((s, e, "ufn2"),))
    if tier == "thorough":
        for caller in CALLERS:
            for s in names:
                for e, f in itertools.product(e1, e1):
                    yield (caller, ((s, e, f),))
        for caller in ("subroutine", "program"):
            for s1, s2 in itertools.permutations(names, 2):
                if {"goto-computed", "goto-computed2", "if-goto-computed", "labelled-call", "labelled-call-noparen", "labelled-assign", "format", "format-noblank"} >= {s1, s2} or \
                        (s1 in ("goto-computed", "goto-computed2", "if-goto-computed", "labelled-call", "labelled-call-noparen", "labelled-assign") and
                         s2 in ("goto-computed", "goto-computed2", "if-goto-computed", "labelled-call", "labelled-call-noparen", "labelled-assign")):
                    continue  # duplicate statement labels
                for e in ("ufn", "larr", "sum2"):
                    yield (caller, ((s1, e, "var"), (s2, "gen", "marr")))


def work(chunk):
    st = Stats()
    for case in chunk:
        if case[0] == "intrinsic":
            run_intrinsic(st, case)
        elif case[0] == "fixed":
            run_fixed(st, case)
        else:
            run_case(st, case)
    return st


def replay(path):
    import json

    core.use_repo()
    rec = json.loads(open(path).read())
    st = Stats()
    if rec["input"]["case"][0] == "intrinsic":
        run_intrinsic(st, tuple(rec["input"]["case"]))
    elif rec["input"]["case"][0] == "fixed":
        c = rec["input"]["case"]
        run_fixed(st, (c[0], c[1], c[2], tuple(c[3]), c[4], c[5]))
        print(rec["input"]["files"]["src/caller.f"])
        rec["input"]["body"] = []
    else:
        caller, stmts = rec["input"]["case"]
        run_case(st, (caller, tuple(tuple(s) for s in stmts)))
    print("\n".join(rec["input"]["body"]))
    for v in st.violations:
        print("REPRODUCED", v["clause"], v["features"].get("names"), "got", v["observed"], "want", v["expected"])
    return 1 if st.violations else 0


def main(tier, replay_path=None):
    if replay_path:
        return replay(replay_path)
    t0 = time.time()
    core.use_repo()
    seen, cases = set(), []
    for c in gen_cases(tier):
        if c not in seen:
            seen.add(c)
            cases.append(c)
    k = core.SEED % 17
    cases = cases[k:] + cases[:k]
    nchunks = core.WORKERS * 8
    chunks = [c for c in (cases[i::nchunks] for i in range(nchunks)) if c]
    total = Stats()
    for st in core.pmap(work, chunks):
        total.merge(st)
    return core.finish(
        PROP, tier, "model_checking", total, t0,
        rule=(f"{len(STMTS)} statement forms x {len(ATOMS)} expression atoms in either expression slot x 5 calling-unit kinds; nested expressions "
              f"(5 wrappers x atoms) in every statement form" + ("; both slots varied jointly; all ordered pairs of statement forms x 3 expressions" if tier == "thorough" else "")
              + "; fixed source form: 5 statements x every token boundary (and pairs of them) as continuation break x 9 kinds of lines in between x continuation marks"
              + ". distinct_nontrivial = distinct (unit, statement sequence, expressions); states = distinct observed call lists"),
        assumptions=[
            "user procedures whose name equals an intrinsic or keyword are not generated (FORD's documented filter)",
            "a type-bound call obj%tbp(...) is expected to be recorded under the binding name",
            "an undeclared external function is expected to be recorded by name (unresolved)",
        ],
        bounds=dict(cases=len(cases)),
    )
