"""C19 - a run touches nothing outside its output directory.

Fault enumeration over a sandbox tree (project file, sources, pages, media, css,
favicon, mathjax config, an unrelated sibling directory, a symlink pointing out of
the project):  placement of output_dir / graph_dir {sibling, nested new path,
elsewhere, `../out`, through a symlink, inside a source directory, stale previous
output, equal to / parent of a source directory} x option sets that copy or write
(media_dir, css, favicon, mathjax_config, page_dir + copy_subdir, incl_src,
externalize, graph + graph_dir, search) x an injected OSError at EVERY k-th
file-system-mutating event of the run (k = none, 1..N).  All mutating operations
are intercepted - and failed - from a sys.addaudithook hook, so no call site can
be missed.  Oracle: (i) every intercepted mutating event targets a path inside the
resolved output_dir / graph_dir; (ii) content-hash + mode snapshot of everything
else is unchanged after the run, failed or not; (iii) a source directory equal to
or below the output directory => refusal before the first mutating event.
"""
from __future__ import annotations

import contextlib
import errno
import hashlib
import io
import os
import shutil
import stat
import sys
import time
from pathlib import Path

from mc import core, fordrun
from mc.core import Stats

PROP = "C19"
sys.dont_write_bytecode = True

STATE = dict(active=False, events=[], count=0, fail_at=None, failed=False)
W_FLAGS = os.O_WRONLY | os.O_RDWR | os.O_CREAT | os.O_TRUNC | os.O_APPEND
PATH_EVENTS = {
    "os.mkdir": (0,), "os.rmdir": (0,), "os.remove": (0,), "os.rename": (0, 1), "os.utime": (0,), "os.chmod": (0,), "os.chown": (0,),
    "os.symlink": (1,), "os.link": (1,), "os.truncate": (0,), "shutil.copyfile": (1,), "shutil.copytree": (1,), "shutil.rmtree": (0,),
    "shutil.move": (0, 1), "shutil.copymode": (1,), "shutil.copystat": (1,), "os.removexattr": (0,), "os.setxattr": (0,),
}
IGNORE_PREFIXES = None


def _abspath(p, dir_fd=None):
    if isinstance(p, bytes):
        p = os.fsdecode(p)
    if isinstance(p, int):
        try:
            return os.readlink(f"/proc/self/fd/{p}")
        except OSError:
            return f"<fd {p}>"
    p = os.fspath(p)
    if not os.path.isabs(p):
        base = None
        if isinstance(dir_fd, int) and dir_fd >= 0:
            try:
                base = os.readlink(f"/proc/self/fd/{dir_fd}")
            except OSError:
                base = None
        p = os.path.join(base or os.getcwd(), p)
    return os.path.normpath(p)


def _hook(event, args):
    if not STATE["active"]:
        return
    paths = None
    if event == "open":
        path, mode, flags = args[0], args[1], args[2]
        if isinstance(flags, int) and (flags & W_FLAGS):
            paths = [_abspath(path)]
        elif isinstance(mode, str) and any(c in mode for c in "wax+"):
            paths = [_abspath(path)]
    elif event in PATH_EVENTS:
        dir_fd = None
        for a in args[2:]:
            if isinstance(a, int):
                dir_fd = a
        if event in ("os.remove", "os.rmdir", "os.mkdir") and len(args) >= 2 and isinstance(args[-1], int):
            dir_fd = args[-1]
        paths = [_abspath(args[i], dir_fd if event not in ("os.rename", "shutil.move") else None) for i in PATH_EVENTS[event] if i < len(args) and args[i] is not None]
    if not paths:
        return
    if event in ("shutil.copytree", "shutil.copyfile") and len(args) >= 2 and _abspath(args[0]) == _abspath(args[1]):
        return  # copying a path onto itself cannot change anything (it fails with "File exists")
    if all(any(p.startswith(pref) for pref in IGNORE_PREFIXES) for p in paths):
        return
    STATE["count"] += 1
    STATE["events"].append((event, paths))
    if STATE["fail_at"] is not None and STATE["count"] == STATE["fail_at"]:
        STATE["failed"] = True
        raise OSError(errno.EIO, f"injected fault at mutating event #{STATE['count']} ({event})")


_hook_installed = [False]


def install_hook():
    global IGNORE_PREFIXES
    if not _hook_installed[0]:
        IGNORE_PREFIXES = tuple(os.path.normpath(p) + os.sep for p in {sys.prefix, sys.base_prefix, "/venv", "/root/.pyenv", "/proc", "/dev", str(core.REPO), str(core.VERIF)})
        sys.addaudithook(_hook)
        _hook_installed[0] = True


# ---------------------------------------------------------------------------
SRC = {
    "proj/src/m.f90": "module m\n!! module doc\ninteger :: v\n!! var\ncontains\nsubroutine s()\n!! sub doc\nend subroutine s\nend module m\n",
    "proj/src/sub/p.f90": "program p\n!! program doc\nuse m\ncall s()\nend program p\n",
    "proj/pages/index.md": "title: Guide\ncopy_subdir: img\n\nTop [leaf](leaf.html)\n",
    "proj/pages/leaf.md": "title: Leaf\n\nleaf page\n",
    "proj/pages/img/pic.txt": "picture\n",
    "proj/pages/data.csv": "1,2\n",
    "proj/media/logo.txt": "logo\n",
    "proj/css/user.css": "body {}\n",
    "proj/fav.png": "png\n",
    "proj/mj.js": "// mathjax config\n",
    # a page sub-directory that is a symlink to a directory outside the project
    "sibling/guide/index.md": "title: Shared guide\n\nshared [more](more.html)\n",
    "sibling/guide/more.md": "title: More\n\nmore\n",
    "sibling/guide/table.csv": "a,b\n",
    "sibling/unrelated.txt": "do not touch\n",
    "sibling/keep/deep.txt": "deep\n",
}

PLACEMENTS = {
    # name: (output_dir as written in the project file, graph_dir, prepare(root) or None, expect refusal)
    "sibling": ("doc", "graphs", None, False),
    "nested-new": ("build/out/doc", "build/out/graphs", None, False),
    "elsewhere-abs": ("{root}/elsewhere/doc", "{root}/elsewhere/graphs", None, False),
    "dotdot": ("../out", "../outgraphs", None, False),
    "via-symlink": ("link_out/doc", "link_out/graphs", None, False),
    "inside-src": ("src/doc", "src/graphs", None, False),
    "stale-output": ("doc", "graphs", "stale", False),
    # ... old output that holds a hand-made link `page` to a directory elsewhere: wiping the old output removes the link, not what it leads to
    "stale-output-page-link": ("doc", "graphs", "stale-link", False),
    "equal-src": ("src", "graphs", None, True),
    "parent-of-src": (".", "graphs", None, True),
    "parent-of-src2": ("../proj", "graphs", None, True),
    "src-symlinked-into-output": ("build", "graphs", "srclink", True),
    # a second source directory several levels below the output directory (the first one is outside, so the run would go on)
    "src2-deep-below-output": ("docs", "graphs", "vendor", True, "src\n    docs/vendor/lib"),
    "src2-deep-below-output-dotdot": ("build/../docs", "graphs", "vendor", True, "docs/vendor/lib\n    src"),
    # graph_dir pointed at directories that hold the user's files: FORD may add graph files there, nothing else
    "graphdir-is-src": ("doc", "src", None, False),
    "graphdir-is-media": ("doc", "media", None, False),
    "graphdir-is-project-dir": ("doc", ".", None, False),
    "graphdir-above-pages": ("doc", "pages", None, False),
}

OPTSETS = {
    "default": dict(),
    "assets": dict(media_dir="media", css="css/user.css", favicon="fav.png", mathjax_config="mj.js"),
    "pages": dict(page_dir="pages"),
    # the top page lists a sub-page that lies outside the page directory (see make_sandbox): whatever FORD does with it,
    # refusing it included, nothing is written outside the output directory
    "pages-outside": dict(page_dir="pages"),
    "pages-outside-abs": dict(page_dir="pages"),
    # ... and a copy_subdir entry that leads out of the page directory
    "copy-subdir-outside": dict(page_dir="pages"),
    "copy-subdir-outside-project": dict(page_dir="pages", copy_subdir="../../sibling/keep"),
    "project-copy-subdir": dict(page_dir="pages", copy_subdir="pages/img"),
    # a real preprocessor run on a .F90 file, with macro definitions that hold characters a shell would interpret
    "preprocess-macros": dict(preprocess="true", preprocessor="cpp -traditional-cpp -E -D__GFORTRAN__", macro="TOO_MANY=n>100\n       POINTS_TO==>\n       BOTH=a&&b;c"),
    # the documentation will be served from / copied to a local directory that already exists; own templates
    "externalize+local-url": dict(externalize="true", project_url="{root}/sibling/keep"),
    "own-templates": dict(html_template_dir="tmpl"),
    "nosrc": dict(incl_src="false"),
    "externalize": dict(externalize="true"),
    "graphs": dict(graph="true", graph_dir="{graph_dir}", parallel="0"),
    "search": dict(search="true"),
    "force": dict(force="true"),
    "force+pages": dict(force="true", page_dir="pages", media_dir="media"),
    "everything": dict(media_dir="media", css="css/user.css", favicon="fav.png", mathjax_config="mj.js", page_dir="pages", externalize="true",
                       graph="true", graph_dir="{graph_dir}", parallel="0"),
}


def make_sandbox(placement, optset=None):
    root = core.tmp_root() / f"c19-{os.getpid()}"
    shutil.rmtree(root, ignore_errors=True)
    fordrun.write_tree(root, SRC)
    if optset == "pages-outside":
        (root / "proj" / "pages" / "index.md").write_text("title: Guide\nordered_subpage: img/../../../sibling/guide/more.md\n                 ../notes_outside.md\n\nTop [leaf](leaf.html)\n")
        (root / "proj" / "notes_outside.md").write_text("title: Notes\n\nnotes kept beside the page directory\n")
    if optset == "copy-subdir-outside":
        (root / "proj" / "pages" / "index.md").write_text("title: Guide\ncopy_subdir: img\n             ../../sibling/keep\n             ../media\n\nTop [leaf](leaf.html)\n")
    if optset == "pages-outside-abs":
        (root / "proj" / "pages" / "index.md").write_text(f"title: Guide\nordered_subpage: {root}/sibling/guide/more.md\n\nTop [leaf](leaf.html)\n")
    os.symlink("../sibling", root / "proj" / "link_out")
    os.symlink("../../sibling/guide", root / "proj" / "pages" / "guide")
    # links inside the directories FORD copies: to a file (absolute), to a directory and to a file (relative)
    os.symlink(str(root / "sibling" / "unrelated.txt"), root / "proj" / "media" / "abs_link.txt")
    os.symlink("../../sibling/keep", root / "proj" / "media" / "rel_dir_link")
    os.symlink("../../../sibling/guide/table.csv", root / "proj" / "pages" / "img" / "rel_link.csv")
    (root / "elsewhere").mkdir()
    if PLACEMENTS[placement][2] == "srclink":
        (root / "proj" / "build").mkdir()
        shutil.move(str(root / "proj" / "src"), str(root / "proj" / "build" / "generated"))
        os.symlink("build/generated", root / "proj" / "src")
    if PLACEMENTS[placement][2] == "vendor":
        fordrun.write_tree(root, {"proj/docs/vendor/lib/vend.f90": "module vend\n!! vendored\nend module vend\n", "proj/docs/keep.txt": "keep\n"})
    if optset == "own-templates":
        # a template directory of the user's own (it shadows one of FORD's templates)
        import ford as _ford
        tdir = os.path.join(os.path.dirname(_ford.__file__), "templates")
        fordrun.write_tree(root, {"proj/tmpl/search.html": open(os.path.join(tdir, "search.html")).read()})
    if optset == "preprocess-macros":
        fordrun.write_tree(root, {"proj/src/uses_macro.F90": "module uses_macro\n!! preprocessed\n#ifdef TOO_MANY\ninteger :: big\n#endif\ninteger :: w\nend module uses_macro\n"})
    if PLACEMENTS[placement][2] == "stale-link":
        fordrun.write_tree(root, {"proj/doc/index.html": "old", "proj/doc/module/old.html": "<html>old</html>", "sibling/handmade/index.html": "hand-made\n"})
        os.symlink("../../sibling/handmade", root / "proj" / "doc" / "page")
    if PLACEMENTS[placement][2] == "stale":
        fordrun.write_tree(root, {"proj/doc/src/old.f90": "! stale source copy\n", "proj/doc/module/old.html": "<html>old</html>", "proj/doc/index.html": "old",
                                  "proj/graphs/old.gv": "digraph {}"})
    return root


def snapshot_outside(root, roots_out):
    snap = {}
    outs = [os.path.normpath(str(r)) + os.sep for r in roots_out]
    for d, dirs, fs in os.walk(root, followlinks=False):
        for name in list(dirs) + fs:
            p = os.path.join(d, name)
            rp = os.path.normpath(os.path.realpath(p)) + (os.sep if os.path.isdir(p) and not os.path.islink(p) else "")
            full = os.path.normpath(p) + (os.sep if os.path.isdir(p) and not os.path.islink(p) else "")
            if any(full.startswith(o) or rp.startswith(o) or (full.rstrip(os.sep) + os.sep) == o for o in outs):
                if name in dirs:
                    dirs.remove(name)
                continue
            st_ = os.lstat(p)
            if stat.S_ISLNK(st_.st_mode):
                snap[p] = ("link", os.readlink(p))
            elif stat.S_ISDIR(st_.st_mode):
                snap[p] = ("dir", stat.S_IMODE(st_.st_mode))
            else:
                snap[p] = ("file", stat.S_IMODE(st_.st_mode), hashlib.sha1(open(p, "rb").read()).hexdigest(), st_.st_mtime_ns)
    return snap


class _PF:
    def __init__(self, name):
        self.name = name


def run_ford(root, placement, optset, fail_at):
    """Drive the real ford front end in-process (load_settings -> parse_arguments -> main)."""
    import ford

    fordrun._patch()
    fordrun.reset_state()
    out_spec, graph_spec, _, _, *more = PLACEMENTS[placement]
    src_spec = more[0] if more else "src"
    out_spec = out_spec.format(root=root)
    graph_spec = graph_spec.format(root=root)
    opts = {k: v.format(graph_dir=graph_spec, root=root) if "{" in v else v for k, v in OPTSETS[optset].items()}
    lines = ["project: sandbox", f"src_dir: {src_spec}", f"output_dir: {out_spec}", "preprocess: false", "search: false", "creation_date: DATE", "year: 2000"]
    for k, v in opts.items():
        lines = [l for l in lines if not l.startswith(k + ":")] + [f"{k}: {v}"]
    text = "\n".join(lines) + "\n\nFront page.\n"
    proj = root / "proj"
    (proj / "project.md").write_text(text)
    args = {k: None for k in ("src_dir", "page_dir", "output_dir", "css", "revision", "exclude", "exclude_dir", "extensions", "macro", "warn", "force",
                              "graph", "search", "quiet", "dbg", "include", "externalize", "external", "config")}
    args["project_file"] = _PF(str(proj / "project.md"))
    buf = io.StringIO()
    cwd = os.getcwd()
    err = None
    settings = None
    fordrun.STUB_DOT = True
    try:
        os.chdir(proj)
        STATE.update(active=True, events=[], count=0, fail_at=fail_at, failed=False)
        with contextlib.redirect_stdout(buf), contextlib.redirect_stderr(buf):
            try:
                docs, data = ford.load_settings(text, str(proj), str(proj / "project.md"))
                settings = data
                data, docs = ford.parse_arguments(args, docs, data, str(proj))
                settings = data
                ford.main(data, docs)
            except (Exception, SystemExit) as e:  # noqa
                err = e
    finally:
        STATE["active"] = False
        os.chdir(cwd)
    return settings, err, buf.getvalue(), list(STATE["events"]), STATE["failed"]


FOLLOWS_LINKS = {"open", "os.utime", "os.chmod", "os.chown", "os.truncate", "os.setxattr", "os.removexattr"}


def inside(path, roots, event=None):
    """is the object that the event changes inside one of `roots`?  Events that follow symbolic links change what the
    link points to; the others change the directory entry itself."""
    p = os.path.normpath(path)
    if event in FOLLOWS_LINKS and os.path.islink(p):
        cands = [os.path.normpath(os.path.realpath(p))]
    else:
        rp = os.path.normpath(os.path.realpath(path)) if os.path.exists(os.path.dirname(path)) else p
        cands = [p, rp]
    for r in roots:
        r = os.path.normpath(str(r))
        for q in cands:
            if q == r or q.startswith(r + os.sep):
                return True
    return False


def run_case(st: Stats, placement, optset, fail_at):
    install_hook()
    root = make_sandbox(placement, optset)
    out_spec, graph_spec, _, refuse, *_more = PLACEMENTS[placement]
    proj = root / "proj"
    out_res = Path(os.path.realpath(os.path.join(proj, out_spec.format(root=root))))
    graph_res = Path(os.path.realpath(os.path.join(proj, graph_spec.format(root=root))))
    allowed = [out_res]
    if "graph_dir" in OPTSETS[optset]:
        allowed.append(graph_res)
    ancestors = set()
    for a in allowed:
        q = a.parent
        while not q.exists():
            ancestors.add(str(q))
            q = q.parent
    # graph_dir may receive new files, but what is already there belongs to the user: it stays in the snapshot
    before = snapshot_outside(root, ([] if refuse else [out_res]) + [proj / "project.md"])
    settings, err, log, events, failed = run_ford(root, placement, optset, fail_at)
    st.evaluations += 1
    st.transitions += len(events)
    stratum = f"{placement}/{optset}"
    inp = dict(placement=placement, options=optset, fail_at=fail_at, output_dir=out_spec, graph_dir=graph_spec)
    feats = dict(placement=placement, options=optset, fault=("none" if fail_at is None else "injected"))
    st.nontrivial.add(core.digest([placement, optset, fail_at]))
    bad = 0
    if refuse:
        if not isinstance(err, ValueError) or "subdirectory of output directory" not in str(err):
            bad += 1
            st.violation("no-refusal", stratum, feats, inp, repr(err)[:200], "ValueError: source directory is a subdirectory of output directory")
        if events:
            bad += 1
            st.violation("mutating-event-before-refusal", stratum, feats, inp, [list(map(str, e)) for e in events[:3]], "no file-system change")
    else:
        for (event, paths) in events:
            off = [p for p in paths if not inside(p, allowed, event) and not (event == "os.mkdir" and os.path.normpath(p) in ancestors)]
            if off:
                bad += 1
                rel = os.path.relpath(off[0], root)
                st.violation("mutating-event-outside-output", stratum, dict(feats, event=event, where=rel.split(os.sep)[0] + "/" + (rel.split(os.sep)[1] if os.sep in rel else "")),
                             inp, dict(event=event, path=rel), "only paths inside output_dir / graph_dir are created, changed or deleted")
                break
        if fail_at is None and err is not None and not optset.startswith(("pages-outside", "copy-subdir-outside")):
            bad += 1
            st.violation("run-failed-without-fault", stratum, feats, inp, repr(err)[:300] + log[-200:], "run completes")
    after = snapshot_outside(root, ([] if refuse else [out_res]) + [proj / "project.md"])
    if not refuse and len(allowed) > 1:
        for k in [k for k in after if k not in before and inside(k, [graph_res])]:
            after.pop(k)  # files added to graph_dir by this run
    for a in ancestors:
        if after.get(a, ("dir",))[0] == "dir":
            after.pop(a, None)  # a missing parent of the output directory had to be created
    if after != before:
        bad += 1
        ch = sorted(os.path.relpath(k, root) for k in set(before) | set(after) if before.get(k) != after.get(k))
        st.violation("outside-tree-changed", stratum, dict(feats, where=ch[0].split(os.sep)[0] + "/" + (ch[0].split(os.sep)[1] if os.sep in ch[0] else "")), inp,
                     ch[:6], "everything outside output_dir / graph_dir byte-identical")
    st.states.add(core.digest([placement, optset, len(events), failed, type(err).__name__ if err else None]))
    st.stratum(stratum, bad)
    shutil.rmtree(root, ignore_errors=True)
    return len(events), failed


def work(args):
    placement, optset, mode = args
    core.use_repo()
    st = Stats()
    n, _ = run_case(st, placement, optset, None)
    st.extra.setdefault("mutating_events_per_run", []).append(n)
    if len(st.samples) < 1:
        st.sample(dict(placement=placement, options=optset, mutating_events=n))
    if mode == "all-k" and not PLACEMENTS[placement][3]:
        for k in range(1, n + 1):
            run_case(st, placement, optset, k)
    elif isinstance(mode, int) and not PLACEMENTS[placement][3]:
        for k in range(1, n + 1, mode):
            run_case(st, placement, optset, k)
    return st


def work_k(args):
    placement, optset, ks = args
    core.use_repo()
    st = Stats()
    for k in ks:
        run_case(st, placement, optset, k)
    return st


def replay(path):
    import json

    core.use_repo()
    rec = json.loads(open(path).read())
    i = rec["input"]
    st = Stats()
    run_case(st, i["placement"], i["options"], i["fail_at"])
    for v in st.violations:
        print("REPRODUCED", v["clause"], v["observed"])
    return 1 if st.violations else 0


def main(tier, replay_path=None):
    if replay_path:
        return replay(replay_path)
    t0 = time.time()
    core.use_repo()
    if tier == "quick":
        combos = [(p, o) for p in PLACEMENTS for o in ("default",)] + [(p, o) for p in PLACEMENTS if PLACEMENTS[p][3] for o in ("force", "force+pages")] + [(p, "everything") for p in ("sibling", "via-symlink", "dotdot", "stale-output", "stale-output-page-link")] + [("stale-output-page-link", "pages"), ("inside-src", "preprocess-macros"), ("dotdot", "externalize+local-url"), ("nested-new", "own-templates")] + \
                 [("sibling", o) for o in OPTSETS] + [(p, o) for p in ("nested-new", "dotdot", "inside-src") for o in ("pages-outside", "pages-outside-abs", "copy-subdir-outside", "copy-subdir-outside-project")] + [(p, o) for p in PLACEMENTS if p.startswith("graphdir-") for o in ("graphs", "everything")]
        fault_combos = [("graphdir-is-src", "graphs"), ("sibling", "default"), ("via-symlink", "everything"), ("stale-output", "default"), ("inside-src", "assets"), ("dotdot", "pages"),
                        ("sibling", "project-copy-subdir"), ("stale-output-page-link", "pages")]
    else:
        combos = [(p, o) for p in PLACEMENTS for o in OPTSETS]
        fault_combos = [(p, o) for p in PLACEMENTS if not PLACEMENTS[p][3] for o in ("default", "assets", "pages", "project-copy-subdir", "externalize", "graphs", "everything")]
    combos = list(dict.fromkeys(combos))
    total = Stats()
    # 1. fault-free runs of every combination (also measures the number of mutating events)
    counts = {}
    res = core.pmap(work, [(p, o, None) for (p, o) in combos])
    for (p, o), st in zip(combos, res):
        total.merge(st)
        counts[(p, o)] = (st.extra.get("mutating_events_per_run") or [0])[0]
    # 2. a fault at every k-th mutating event
    jobs = []
    for (p, o) in fault_combos:
        n = counts.get((p, o))
        if n is None:
            st = work((p, o, None))
            n = (st.extra.get("mutating_events_per_run") or [0])[0]
        ks = list(range(1, n + 1))
        chunk = max(1, len(ks) // (core.WORKERS * 2) + 1)
        for i in range(0, len(ks), chunk):
            jobs.append((p, o, ks[i:i + chunk]))
    for st in core.pmap(work_k, jobs):
        total.merge(st)
    ev = total.extra.get("mutating_events_per_run", [])
    return core.finish(
        PROP, tier, "fault_enumeration", total, t0,
        rule=(f"{len(combos)} (placement, option set) combinations run fault-free; for {len(fault_combos)} of them an OSError is injected at EVERY k-th mutating file-system "
              f"event (k = 1..N, N between {min(ev) if ev else 0} and {max(ev) if ev else 0}); events intercepted by a sys.addaudithook hook; "
              "transitions = mutating events observed; distinct_nontrivial = distinct (placement, options, k)"),
        assumptions=[
            "writes by the interpreter itself below sys.prefix / the ford package (byte-code caches) are not FORD's output and are ignored; byte-code writing is switched off",
            "copy_subdir values stay inside the page tree (`img`); a value such as ../../x is the user's explicit instruction and is not judged",
            "an attempted copy of a directory onto itself (project-level copy_subdir) cannot change anything and is not counted as a mutating event",
            "what the `dot` subprocess writes is covered by the outside-tree snapshot, not by the event log (dot is stubbed for inline graphs, real for graph_dir)",
        ],
        bounds=dict(combos=len(combos), fault_combos=len(fault_combos)),
    )
